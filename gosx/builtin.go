package main

import (
	"fmt"
	"unsafe"
	"go/types"
	"os"

	"golang.org/x/tools/go/ssa"
)

func (ex *Exec) callBuiltin(caller *frame, fn *ssa.Builtin, args []Value) Value {
	switch fn.Name() {
	case "append":
		if len(args) == 1 {
			return args[0]
		}
		dst := args[0].(Slice)
		switch src := args[1].(type) {
		case string:
			for i := 0; i < len(src); i++ {
				dst = append(dst, CInt(uint64(src[i]), 8))
			}
			return dst
		case SymStr:
			bs := ex.conv(types.NewSlice(types.Typ[types.Uint8]), types.Typ[types.String], src).(Slice)
			return append(dst, bs...)
		case Slice:
			if len(src) == 0 {
				return dst
			}
			cp := make([]Value, len(src))
			for i, v := range src {
				cp[i] = copyVal(v)
			}
			return append(dst, cp...)
		}
		panic(fmt.Sprintf("append: bad src %T", args[1]))

	case "copy":
		dst := args[0].(Slice)
		switch src := args[1].(type) {
		case string:
			n := min(len(dst), len(src))
			for i := 0; i < n; i++ {
				dst[i] = CInt(uint64(src[i]), 8)
			}
			return CInt(uint64(n), 64)
		case SymStr:
			bs := ex.conv(types.NewSlice(types.Typ[types.Uint8]), types.Typ[types.String], src).(Slice)
			n := copy(dst, bs)
			return CInt(uint64(n), 64)
		case Slice:
			n := min(len(dst), len(src))
			tmp := make([]Value, n)
			for i := 0; i < n; i++ {
				tmp[i] = copyVal(src[i])
			}
			copy(dst, tmp)
			return CInt(uint64(n), 64)
		}
		panic(fmt.Sprintf("copy: bad src %T", args[1]))

	case "close":
		c := args[0].(*Chan)
		if c == nil {
			ex.rtPanic("close of nil channel")
		}
		if c.Closed {
			ex.rtPanic("close of closed channel")
		}
		c.Closed = true
		return nil

	case "delete":
		if m := args[0].(*Map); m != nil {
			ex.mapDelete(m, args[1])
		}
		return nil

	case "clear":
		switch x := args[0].(type) {
		case *Map:
			if x != nil {
				x.K, x.V = nil, nil
			}
		case Slice:
			et := fn.Type().(*types.Signature).Params().At(0).Type().Underlying().(*types.Slice).Elem()
			for i := range x {
				x[i] = zero(et)
			}
		}
		return nil

	case "print", "println":
		if ex.trace {
			for _, a := range args {
				fmt.Fprint(os.Stderr, valString(a), " ")
			}
			fmt.Fprintln(os.Stderr)
		}
		return nil

	case "len":
		switch x := args[0].(type) {
		case string:
			return CInt(uint64(len(x)), 64)
		case SymStr:
			if x.B != nil {
				return CInt(uint64(len(x.B)), 64)
			}
			return SInt(SeqLen(x.T))
		case Array:
			return CInt(uint64(len(x)), 64)
		case *Value:
			if x == nil {
				// len of nil *array is the static length
				t := fn.Type().(*types.Signature).Params().At(0).Type()
				return CInt(uint64(deref(t).Underlying().(*types.Array).Len()), 64)
			}
			return CInt(uint64(len((*x).(Array))), 64)
		case Slice:
			return CInt(uint64(len(x)), 64)
		case *Map:
			if x == nil {
				return CInt(0, 64)
			}
			return CInt(uint64(len(x.K)), 64)
		case *Chan:
			if x == nil {
				return CInt(0, 64)
			}
			ex.pollChan(x)
			return CInt(uint64(len(x.Buf)), 64)
		}
		panic(fmt.Sprintf("len: illegal operand: %T", args[0]))

	case "cap":
		switch x := args[0].(type) {
		case Array:
			return CInt(uint64(len(x)), 64)
		case *Value:
			return CInt(uint64(len((*x).(Array))), 64)
		case Slice:
			return CInt(uint64(cap(x)), 64)
		case *Chan:
			if x == nil {
				return CInt(0, 64)
			}
			return CInt(uint64(x.Cap), 64)
		}
		panic(fmt.Sprintf("cap: illegal operand: %T", args[0]))

	case "min", "max":
		t := fn.Type().(*types.Signature).Params().At(0).Type()
		acc := args[0]
		for _, a := range args[1:] {
			acc = ex.minmax(fn.Name() == "min", t, acc, a)
		}
		return acc

	case "panic":
		panic(targetPanic{args[0]})

	case "recover":
		return ex.doRecover(caller)

	case "ssa:wrapnilchk":
		recv := args[0]
		if p, ok := recv.(*Value); ok && p == nil {
			recvType := args[1]
			methodName := args[2]
			ex.rtPanic(fmt.Sprintf("value method %s.%s called using nil *%s pointer", recvType, methodName, recvType))
		}
		return recv

	case "ssa:deferstack":
		return &caller.defers

	case "SliceData":
		s := args[0].(Slice)
		if s == nil {
			return UnsafePtr{}
		}
		return UnsafePtr{S: s[:len(s):len(s)]}
	case "StringData":
		b, ok := strBytesOf(args[0])
		if !ok {
			ex.unsupported("unsafe.StringData of unbounded symbolic string")
		}
		return UnsafePtr{S: b}
	case "String":
		n := int(ex.concretize(args[1].(Int)))
		if ep, isElem := args[0].(*Value); isElem {
			// &b[0]: the pointer addresses an element of a []Value backing array
			if n == 0 || ep == nil {
				return ""
			}
			return ex.bytesToStr(Slice(unsafe.Slice(ep, n)))
		}
		p := args[0].(UnsafePtr)
		if n > len(p.S) {
			ex.unsupported("unsafe.String beyond the backing slice")
		}
		return ex.bytesToStr(Slice(p.S[:n]))
	case "Slice":
		p, ok := args[0].(UnsafePtr)
		if !ok {
			ex.unsupported("unsafe.Slice of a non-byte pointer")
		}
		n := int(ex.concretize(args[1].(Int)))
		if n > len(p.S) {
			ex.unsupported("unsafe.Slice beyond the backing slice")
		}
		return Slice(p.S[:n:n])
	case "real", "imag", "complex":
		ex.unsupported("complex builtins")
	}
	panic("unknown built-in: " + fn.Name())
}

func (ex *Exec) minmax(isMin bool, t types.Type, a, b Value) Value {
	switch av := a.(type) {
	case Int:
		bv := b.(Int)
		var op = "<"
		_ = op
		var lt Value
		_, signed, _ := intWidth(t)
		if av.T == nil && bv.T == nil {
			if signed {
				lt = av.S64() < bv.S64()
			} else {
				lt = av.C < bv.C
			}
		} else if signed {
			lt = mkBool(Bin("bvslt", SBool, av.Term(), bv.Term()))
		} else {
			lt = mkBool(Bin("bvult", SBool, av.Term(), bv.Term()))
		}
		if l, ok := lt.(bool); ok {
			if l == isMin {
				return av
			}
			return bv
		}
		c := boolTerm(lt)
		if isMin {
			return SInt(Ite(c, av.Term(), bv.Term()))
		}
		return SInt(Ite(c, bv.Term(), av.Term()))
	case float64:
		bf, ok := b.(float64)
		if !ok {
			return OpaqueFloat{}
		}
		if isMin {
			return min(av, bf)
		}
		return max(av, bf)
	case OpaqueFloat:
		return av
	case string:
		bs, ok := b.(string)
		if ok {
			if isMin {
				return min(av, bs)
			}
			return max(av, bs)
		}
	}
	ex.unsupported("min/max on this type")
	return nil
}

func (ex *Exec) doRecover(caller *frame) Value {
	// recover() must be called directly by a deferred function.
	if caller != nil && !caller.panicking &&
		caller.caller != nil && caller.caller.panicking {
		caller.caller.panicking = false
		p := caller.caller.panic
		caller.caller.panic = nil
		switch p := p.(type) {
		case targetPanic:
			return p.v
		default:
			panic(fmt.Sprintf("unexpected panic type %T in target call to recover()", p))
		}
	}
	return Iface{}
}
