package main

// Summaries for crypto/ed25519 (uninterpreted, correctness axiom only):
//   GenerateKey -> fresh 64-byte private key whose upper half is the public key;
//                  all generated public keys are pairwise distinct
//   Sign(sk,m)  -> edsign_n(sk,m) with the axiom Verify(pub(sk), m, Sign(sk,m))
//   Verify      -> edverify_n(pk,m,sig): an uninterpreted predicate.
// Unforgeability is NOT assumed: checks are phrased so that they do not need it.
// Also argon2/AES-GCM for the key file (C19): uninterpreted KDF, AEAD with
//   Open(k,n,Seal(k,n,p)) = p and Open failing for every other (k,n,c).

import (
	"fmt"

	"golang.org/x/tools/go/ssa"
)

func (ex *Exec) freshBytes(prefix string, n int) Slice {
	ex.freshCnt++
	t := Var(fmt.Sprintf("%s!%s%d!%d", ex.harness, prefix, 8*n, ex.freshCnt), SBV(8*n))
	out := make(Slice, n)
	for i := 0; i < n; i++ {
		hi := 8*(n-i) - 1
		out[i] = SInt(Extract(hi, hi-7, t))
	}
	return out
}

func bvBytes(t *Term, n int) Slice {
	out := make(Slice, n)
	for i := 0; i < n; i++ {
		hi := 8*(n-i) - 1
		out[i] = SInt(Extract(hi, hi-7, t))
	}
	return out
}

// The message enters the signature scheme through a collision-free digest
// (Ed25519 hashes the message internally); the digest is the same
// uninterpreted sha256 family used everywhere else, which keeps the
// arguments of the sign/verify functions at 256 bits.
func (ex *Exec) msgDigest(msg []Value) *Term {
	return bvOfBytes(ex.sha256Of(msg))
}

type edSignApp struct{ pub, digest, sig *Term }
type edVerifyApp struct{ pk, digest, sig, res *Term }

// Signatures produced by Sign in the model are bound to their key and
// message: Verify(pk, m, Sign(sk, m0)) implies pk = pub(sk) and m = m0 (no
// cross-key / cross-message validity of honestly generated signatures).
// Signature bytes chosen by the harness stay completely unconstrained.
func (ex *Exec) edBind(s edSignApp, v edVerifyApp) {
	if s.sig.S == v.sig.S && s.pub.S == v.pk.S && s.digest.S == v.digest.S {
		return
	}
	ex.addPC(Implies(And(v.res, Eq(v.sig, s.sig)), And(Eq(v.pk, s.pub), Eq(v.digest, s.digest))))
}

func (ex *Exec) edVerifyTerm(pk, msg, sig []Value) *Term {
	f := UF("edverify", []Sort{SBV(256), SBV(256), SBV(512)}, SBool)
	v := edVerifyApp{pk: bvOfBytes(pk), digest: ex.msgDigest(msg), sig: bvOfBytes(sig)}
	v.res = App(f, SBool, v.pk, v.digest, v.sig)
	vs, _ := ex.side["edverifies"].([]edVerifyApp)
	for _, o := range vs {
		if o.res.S == v.res.S {
			return v.res
		}
	}
	ex.side["edverifies"] = append(vs, v)
	ss, _ := ex.side["edsigns"].([]edSignApp)
	for _, s := range ss {
		ex.edBind(s, v)
	}
	return v.res
}

func registerCrypto(e *Engine) {
	x := e.externs
	x["crypto/ed25519.GenerateKey"] = func(ex *Exec, c *frame, f *ssa.Function, a []Value) Value {
		priv := ex.freshBytes("edkey", 64)
		pub := make(Slice, 32)
		copy(pub, priv[32:])
		pubT := bvOfBytes(pub)
		prev, _ := ex.side["edkeys"].([]*Term)
		for _, p := range prev {
			ex.addPC(Not(Eq(p, pubT)))
		}
		ex.side["edkeys"] = append(prev, pubT)
		return Tuple{pub, priv, Iface{}}
	}
	x["crypto/ed25519.Sign"] = func(ex *Exec, c *frame, f *ssa.Function, a []Value) Value {
		sk, msg := a[0].(Slice), a[1].(Slice)
		if len(sk) != 64 {
			ex.rtPanic(fmt.Sprintf("ed25519: bad private key length: %d", len(sk)))
		}
		fn := UF("edsign", []Sort{SBV(512), SBV(256)}, SBV(512))
		dg := ex.msgDigest(msg)
		sigT := App(fn, SBV(512), bvOfBytes(sk), dg)
		sig := bvBytes(sigT, 64)
		sa := edSignApp{pub: bvOfBytes(sk[32:]), digest: dg, sig: sigT}
		ss, _ := ex.side["edsigns"].([]edSignApp)
		dup := false
		for _, o := range ss {
			if o.sig.S == sa.sig.S {
				dup = true
			}
		}
		if !dup {
			ex.side["edsigns"] = append(ss, sa)
			vs, _ := ex.side["edverifies"].([]edVerifyApp)
			for _, v := range vs {
				ex.edBind(sa, v)
			}
		}
		ex.addPC(ex.edVerifyTerm(sk[32:], msg, sig))
		return sig
	}
	x["crypto/ed25519.Verify"] = func(ex *Exec, c *frame, f *ssa.Function, a []Value) Value {
		pk, msg, sig := a[0].(Slice), a[1].(Slice), a[2].(Slice)
		if len(pk) != 32 {
			ex.rtPanic(fmt.Sprintf("ed25519: bad public key length: %d", len(pk)))
		}
		if len(sig) != 64 {
			return false
		}
		return mkBool(ex.edVerifyTerm(pk, msg, sig))
	}
	x["crypto/ed25519.NewKeyFromSeed"] = func(ex *Exec, c *frame, f *ssa.Function, a []Value) Value {
		seed := a[0].(Slice)
		if len(seed) != 32 {
			ex.rtPanic("ed25519: bad seed length")
		}
		fn := UF("edpub", []Sort{SBV(256)}, SBV(256))
		pubT := App(fn, SBV(256), bvOfBytes(seed))
		out := make(Slice, 64)
		copy(out, seed)
		copy(out[32:], bvBytes(pubT, 32))
		return out
	}
	for _, n := range []string{"P224", "P256", "P384", "P521"} {
		x["crypto/elliptic."+n] = externNoop // only reached from package initialisers
	}
	// ---- AEAD / KDF (see harness/_zzsym/internal/zzsym/models_engine.go) ----
	type sealApp struct {
		key, nonce *Term
		pt         []Value
		ct         []Value
	}
	x["zzsym.KDF"] = func(ex *Exec, c *frame, f *ssa.Function, a []Value) Value {
		n := int(ex.concretize(a[2].(Int)))
		fn := UF(fmt.Sprintf("kdf_%d", n), []Sort{SBV(256), SBV(256)}, SBV(8*n))
		pd, sd := ex.msgDigest(a[0].(Slice)), ex.msgDigest(a[1].(Slice))
		res := App(fn, SBV(8*n), pd, sd)
		// collision freeness of the KDF
		apps, _ := ex.side["kdfApps"].([][3]*Term)
		for _, o := range apps {
			if o[2].Sort == res.Sort && o[2].S != res.S {
				ex.addPC(Implies(Eq(o[2], res), And(Eq(o[0], pd), Eq(o[1], sd))))
			}
		}
		ex.side["kdfApps"] = append(apps, [3]*Term{pd, sd, res})
		return bvBytes(res, n)
	}
	x["zzsym.AEADSeal"] = func(ex *Exec, c *frame, f *ssa.Function, a []Value) Value {
		key, nonce, pt := a[0].(Slice), a[1].(Slice), a[2].(Slice)
		if len(key) != 32 || len(nonce) != 12 {
			ex.unsupported("AEAD model: key must be 32 and nonce 12 bytes")
		}
		n := len(pt)
		var ctT *Term
		if n == 0 {
			fn := UF("aeadseal_0", []Sort{SBV(256), SBV(96)}, SBV(128))
			ctT = App(fn, SBV(128), bvOfBytes(key), bvOfBytes(nonce))
		} else {
			fn := UF(fmt.Sprintf("aeadseal_%d", n), []Sort{SBV(256), SBV(96), SBV(8 * n)}, SBV(8*n+128))
			ctT = App(fn, SBV(8*n+128), bvOfBytes(key), bvOfBytes(nonce), bvOfBytes(pt))
		}
		ct := bvBytes(ctT, n+16)
		seals, _ := ex.side["seals"].([]sealApp)
		// idealisation (as for sha256): two sealings give the same ciphertext only
		// if key, nonce and plaintext are the same
		for _, o := range seals {
			if len(o.ct) != len(ct) || bvOfBytes(o.ct).S == ctT.S {
				continue
			}
			same := And(Eq(o.key, bvOfBytes(key)), Eq(o.nonce, bvOfBytes(nonce)))
			if n > 0 {
				same = And(same, Eq(bvOfBytes(o.pt), bvOfBytes(pt)))
			}
			ex.addPC(Implies(Eq(bvOfBytes(o.ct), ctT), same))
		}
		ex.side["seals"] = append(seals, sealApp{bvOfBytes(key), bvOfBytes(nonce), append([]Value(nil), pt...), ct})
		return ct
	}
	x["zzsym.AEADOpen"] = func(ex *Exec, c *frame, f *ssa.Function, a []Value) Value {
		key, nonce, ct := a[0].(Slice), a[1].(Slice), a[2].(Slice)
		if len(key) != 32 || len(nonce) != 12 {
			ex.unsupported("AEAD model: key must be 32 and nonce 12 bytes")
		}
		n := len(ct) - 16
		kT, nT := bvOfBytes(key), bvOfBytes(nonce)
		// ciphertexts produced by Seal on this path: opens iff same key and nonce
		seals, _ := ex.side["seals"].([]sealApp)
		for _, s := range seals {
			if len(s.ct) != len(ct) {
				continue
			}
			same := ex.bytesEq(ct, s.ct)
			if ex.branch(same) {
				if ex.branch(mkBool(And(Eq(kT, s.key), Eq(nT, s.nonce)))) {
					return Tuple{Slice(append([]Value(nil), s.pt...)), true}
				}
				return Tuple{Slice(nil), false} // authenticity
			}
		}
		// a ciphertext of unknown origin: the verdict and the plaintext are
		// uninterpreted functions of (key, nonce, ciphertext)
		okF := UF(fmt.Sprintf("aeadok_%d", n), []Sort{SBV(256), SBV(96), SBV(8 * (n + 16))}, SBool)
		ok := App(okF, SBool, kT, nT, bvOfBytes(ct))
		if !ex.branch(mkBool(ok)) {
			return Tuple{Slice(nil), false}
		}
		if n == 0 {
			return Tuple{Slice{}, true}
		}
		ptF := UF(fmt.Sprintf("aeadpt_%d", n), []Sort{SBV(256), SBV(96), SBV(8 * (n + 16))}, SBV(8*n))
		return Tuple{bvBytes(App(ptF, SBV(8*n), kT, nT, bvOfBytes(ct)), n), true}
	}
	x["io.ReadFull"] = func(ex *Exec, c *frame, f *ssa.Function, a []Value) Value {
		// only used with crypto/rand.Reader: fills the buffer with fresh bytes
		b := a[1].(Slice)
		if len(b) > 0 {
			copy(b, ex.freshBytes("rand", len(b)))
		}
		return Tuple{CInt(uint64(len(b)), 64), Iface{}}
	}
	x["crypto/rand.Read"] = func(ex *Exec, c *frame, f *ssa.Function, a []Value) Value {
		b := a[0].(Slice)
		if len(b) > 0 {
			copy(b, ex.freshBytes("rand", len(b)))
		}
		return Tuple{CInt(uint64(len(b)), 64), Iface{}}
	}
}
