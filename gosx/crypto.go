package main

// Summaries for crypto/ed25519 (uninterpreted, correctness axiom only):
//   GenerateKey -> fresh 64-byte private key whose upper half is the public key;
//                  all generated public keys are pairwise distinct
//   Sign(sk,m)  -> edsign_n(sk,m) with the axiom Verify(pub(sk), m, Sign(sk,m))
//   Verify      -> edverify_n(pk,m,sig): an uninterpreted predicate.
// Unforgeability is NOT assumed: checks are phrased so that they do not need it.
// Also argon2/AES-GCM for the key file (C19): uninterpreted KDF, AEAD with
//   Open(k,n,Seal(k,n,p)) = p and Open failing for every other (k,n,c).

import (
	"fmt"

	"golang.org/x/tools/go/ssa"
)

func (ex *Exec) freshBytes(prefix string, n int) Slice {
	ex.freshCnt++
	t := Var(fmt.Sprintf("%s!%s!%d", ex.harness, prefix, ex.freshCnt), SBV(8*n))
	out := make(Slice, n)
	for i := 0; i < n; i++ {
		hi := 8*(n-i) - 1
		out[i] = SInt(Extract(hi, hi-7, t))
	}
	return out
}

func bvBytes(t *Term, n int) Slice {
	out := make(Slice, n)
	for i := 0; i < n; i++ {
		hi := 8*(n-i) - 1
		out[i] = SInt(Extract(hi, hi-7, t))
	}
	return out
}

// The message enters the signature scheme through a collision-free digest
// (Ed25519 hashes the message internally); the digest is the same
// uninterpreted sha256 family used everywhere else, which keeps the
// arguments of the sign/verify functions at 256 bits.
func (ex *Exec) msgDigest(msg []Value) *Term {
	return bvOfBytes(ex.sha256Of(msg))
}

type edSignApp struct{ pub, digest, sig *Term }
type edVerifyApp struct{ pk, digest, sig, res *Term }

// Signatures produced by Sign in the model are bound to their key and
// message: Verify(pk, m, Sign(sk, m0)) implies pk = pub(sk) and m = m0 (no
// cross-key / cross-message validity of honestly generated signatures).
// Signature bytes chosen by the harness stay completely unconstrained.
func (ex *Exec) edBind(s edSignApp, v edVerifyApp) {
	if s.sig.S == v.sig.S && s.pub.S == v.pk.S && s.digest.S == v.digest.S {
		return
	}
	ex.addPC(Implies(And(v.res, Eq(v.sig, s.sig)), And(Eq(v.pk, s.pub), Eq(v.digest, s.digest))))
}

func (ex *Exec) edVerifyTerm(pk, msg, sig []Value) *Term {
	f := UF("edverify", []Sort{SBV(256), SBV(256), SBV(512)}, SBool)
	v := edVerifyApp{pk: bvOfBytes(pk), digest: ex.msgDigest(msg), sig: bvOfBytes(sig)}
	v.res = App(f, SBool, v.pk, v.digest, v.sig)
	vs, _ := ex.side["edverifies"].([]edVerifyApp)
	for _, o := range vs {
		if o.res.S == v.res.S {
			return v.res
		}
	}
	ex.side["edverifies"] = append(vs, v)
	ss, _ := ex.side["edsigns"].([]edSignApp)
	for _, s := range ss {
		ex.edBind(s, v)
	}
	return v.res
}

func registerCrypto(e *Engine) {
	x := e.externs
	x["crypto/ed25519.GenerateKey"] = func(ex *Exec, c *frame, f *ssa.Function, a []Value) Value {
		priv := ex.freshBytes("edkey", 64)
		pub := make(Slice, 32)
		copy(pub, priv[32:])
		pubT := bvOfBytes(pub)
		prev, _ := ex.side["edkeys"].([]*Term)
		for _, p := range prev {
			ex.addPC(Not(Eq(p, pubT)))
		}
		ex.side["edkeys"] = append(prev, pubT)
		return Tuple{pub, priv, Iface{}}
	}
	x["crypto/ed25519.Sign"] = func(ex *Exec, c *frame, f *ssa.Function, a []Value) Value {
		sk, msg := a[0].(Slice), a[1].(Slice)
		if len(sk) != 64 {
			ex.rtPanic(fmt.Sprintf("ed25519: bad private key length: %d", len(sk)))
		}
		fn := UF("edsign", []Sort{SBV(512), SBV(256)}, SBV(512))
		dg := ex.msgDigest(msg)
		sigT := App(fn, SBV(512), bvOfBytes(sk), dg)
		sig := bvBytes(sigT, 64)
		sa := edSignApp{pub: bvOfBytes(sk[32:]), digest: dg, sig: sigT}
		ss, _ := ex.side["edsigns"].([]edSignApp)
		dup := false
		for _, o := range ss {
			if o.sig.S == sa.sig.S {
				dup = true
			}
		}
		if !dup {
			ex.side["edsigns"] = append(ss, sa)
			vs, _ := ex.side["edverifies"].([]edVerifyApp)
			for _, v := range vs {
				ex.edBind(sa, v)
			}
		}
		ex.addPC(ex.edVerifyTerm(sk[32:], msg, sig))
		return sig
	}
	x["crypto/ed25519.Verify"] = func(ex *Exec, c *frame, f *ssa.Function, a []Value) Value {
		pk, msg, sig := a[0].(Slice), a[1].(Slice), a[2].(Slice)
		if len(pk) != 32 {
			ex.rtPanic(fmt.Sprintf("ed25519: bad public key length: %d", len(pk)))
		}
		if len(sig) != 64 {
			return false
		}
		return mkBool(ex.edVerifyTerm(pk, msg, sig))
	}
	x["crypto/ed25519.NewKeyFromSeed"] = func(ex *Exec, c *frame, f *ssa.Function, a []Value) Value {
		seed := a[0].(Slice)
		if len(seed) != 32 {
			ex.rtPanic("ed25519: bad seed length")
		}
		fn := UF("edpub", []Sort{SBV(256)}, SBV(256))
		pubT := App(fn, SBV(256), bvOfBytes(seed))
		out := make(Slice, 64)
		copy(out, seed)
		copy(out[32:], bvBytes(pubT, 32))
		return out
	}
	for _, n := range []string{"P224", "P256", "P384", "P521"} {
		x["crypto/elliptic."+n] = externNoop // only reached from package initialisers
	}
	x["crypto/rand.Read"] = func(ex *Exec, c *frame, f *ssa.Function, a []Value) Value {
		b := a[0].(Slice)
		if len(b) > 0 {
			copy(b, ex.freshBytes("rand", len(b)))
		}
		return Tuple{CInt(uint64(len(b)), 64), Iface{}}
	}
}
