package main

import (
	"fmt"
	"go/ast"
	"go/token"
	"go/types"
	"os"
	"path/filepath"
	"runtime/debug"
	"sort"
	"strings"
	"sync"
	"sync/atomic"
	"time"

	"golang.org/x/tools/go/packages"
	"golang.org/x/tools/go/ssa"
	"golang.org/x/tools/go/ssa/ssautil"
)

type engStats struct {
	paths           atomic.Int64
	instrs          atomic.Int64
	concretizations atomic.Int64
	merges          atomic.Int64
}

type Engine struct {
	prog               *ssa.Program
	pkgs               []*packages.Package
	ssaPkgs            map[string]*ssa.Package
	fset               *token.FileSet
	runtimeErrorString types.Type
	externs            map[string]ExternFn
	replacements       map[string]*ssa.Function
	buildMu            sync.Mutex
	built              map[*ssa.Package]bool
	stats              engStats
	modulePath         string
	initAllow          []string
	initDeny           []string
	noopPkgs           []string
	zzsymPath          string
	funcsMu            sync.Mutex
	funcsEncoded       map[string]bool
	loadTime           time.Duration
	cfg                Config
}

type Config struct {
	Dir        string            // module dir to load from
	Patterns   []string          // package patterns
	Overlay    map[string][]byte // virtual files
	MaxSteps   int
	TimeoutMs  int
	Workers    int
	Solver     string
	Trace      bool
	MaxPaths   int
	BuildFlags []string
	NoMerge    bool
}

type ExternFn func(ex *Exec, caller *frame, fn *ssa.Function, args []Value) Value

// scratchModfile copies the module's go.mod/go.sum to a scratch directory and
// returns the -modfile flag for them: with -mod=mod the go command may rewrite
// go.mod (e.g. when a harness imports a module the package did not import
// directly) and that must never touch the repository under test.
func scratchModfile(dir string) (flag string, cleanup func()) {
	tmp, err := os.MkdirTemp("/var/tmp", "verif-modfile-")
	if err != nil {
		return "", func() {}
	}
	for _, f := range []string{"go.mod", "go.sum"} {
		b, err := os.ReadFile(filepath.Join(dir, f))
		if err != nil {
			if f == "go.mod" {
				os.RemoveAll(tmp)
				return "", func() {}
			}
			continue
		}
		os.WriteFile(filepath.Join(tmp, f), b, 0644)
	}
	return "-modfile=" + filepath.Join(tmp, "go.mod"), func() { os.RemoveAll(tmp) }
}

func LoadEngine(cfg Config) (*Engine, error) {
	t0 := time.Now()
	fset := token.NewFileSet()
	if mf, cleanup := scratchModfile(cfg.Dir); mf != "" {
		defer cleanup()
		cfg.BuildFlags = append(append([]string(nil), cfg.BuildFlags...), mf)
	}
	pcfg := &packages.Config{
		Mode:       packages.LoadAllSyntax,
		Dir:        cfg.Dir,
		Fset:       fset,
		Overlay:    cfg.Overlay,
		Tests:      false,
		BuildFlags: cfg.BuildFlags,
		Env:        append(os.Environ(), "GOFLAGS=-mod=mod", "GOPROXY=off", "GOTOOLCHAIN=auto"),
	}
	pkgs, err := packages.Load(pcfg, cfg.Patterns...)
	if err != nil {
		return nil, err
	}
	nerr := 0
	packages.Visit(pkgs, nil, func(p *packages.Package) {
		for _, e := range p.Errors {
			if nerr < 20 {
				fmt.Fprintf(os.Stderr, "load error: %s: %v\n", p.PkgPath, e)
			}
			nerr++
		}
	})
	if nerr > 0 {
		return nil, fmt.Errorf("%d package load errors", nerr)
	}
	prog, _ := ssautil.AllPackages(pkgs, ssa.InstantiateGenerics|ssa.SanityCheckFunctions*0)
	e := &Engine{
		prog: prog, pkgs: pkgs, fset: fset,
		externs:      map[string]ExternFn{},
		replacements: map[string]*ssa.Function{},
		built:        map[*ssa.Package]bool{},
		ssaPkgs:      map[string]*ssa.Package{},
		funcsEncoded: map[string]bool{},
		cfg:          cfg,
	}
	for _, p := range prog.AllPackages() {
		e.ssaPkgs[p.Pkg.Path()] = p
	}
	rt := e.ssaPkgs["runtime"]
	if rt == nil {
		return nil, fmt.Errorf("runtime package not loaded")
	}
	e.runtimeErrorString = rt.Type("errorString").Object().Type()
	e.buildPkg(rt)
	registerExterns(e)
	// replacement functions declared in zzsym (//zzsym:replace <full name>)
	packages.Visit(pkgs, nil, func(p *packages.Package) {
		if !strings.HasSuffix(p.PkgPath, "/internal/zzsym") {
			return
		}
		e.zzsymPath = p.PkgPath
		sp := e.ssaPkgs[p.PkgPath]
		e.buildPkg(sp)
		for _, f := range p.Syntax {
			for _, d := range f.Decls {
				fd, ok := d.(*ast.FuncDecl)
				if !ok || fd.Doc == nil {
					continue
				}
				for _, c := range fd.Doc.List {
					if rest, ok := strings.CutPrefix(c.Text, "//zzsym:replace "); ok {
						target := strings.TrimSpace(rest)
						if fn := sp.Func(fd.Name.Name); fn != nil {
							e.replacements[target] = fn
						}
					}
				}
			}
		}
	})
	e.loadTime = time.Since(t0)
	return e, nil
}

func (e *Engine) buildPkg(p *ssa.Package) {
	e.buildMu.Lock()
	defer e.buildMu.Unlock()
	if e.built[p] {
		return
	}
	e.built[p] = true
	p.Build()
}

var forkMu sync.Mutex
var forkSites = map[string]int{}

func (e *Engine) noteFork(ex *Exec) {
	if os.Getenv("GOSX_FORKS") == "" {
		return
	}
	site := "?"
	if ex.curFrame != nil {
		var parts []string
		for fr := ex.curFrame; fr != nil && len(parts) < 4; fr = fr.caller {
			line := 0
			if fr.cur != nil {
				line = e.prog.Fset.Position(fr.cur.Pos()).Line
			}
			parts = append(parts, fmt.Sprintf("%s:%d", shortName(fr.fn.String()), line))
		}
		site = strings.Join(parts, " < ")
	}
	forkMu.Lock()
	forkSites[site]++
	forkMu.Unlock()
}

func dumpForks() {
	forkMu.Lock()
	defer forkMu.Unlock()
	type kv struct {
		k string
		v int
	}
	var l []kv
	for k, v := range forkSites {
		l = append(l, kv{k, v})
	}
	sort.Slice(l, func(i, j int) bool { return l[i].v > l[j].v })
	for i, e := range l {
		if i >= 25 {
			break
		}
		fmt.Fprintf(os.Stderr, "FORKS %6d %s\n", e.v, e.k)
	}
}

func (e *Engine) noteFunc(name string) {
	e.funcsMu.Lock()
	e.funcsEncoded[name] = true
	e.funcsMu.Unlock()
}

// ---------- package initialisation ----------

func (e *Engine) initAllowed(path string) bool {
	for _, d := range e.initDeny {
		if strings.Contains(path, d) {
			return false
		}
	}
	for _, a := range e.initAllow {
		if path == a || strings.HasPrefix(path, a+"/") {
			return true
		}
	}
	return false
}

func (ex *Exec) initPackage(p *ssa.Package) {
	if ex.initDone[p] {
		return
	}
	ex.initDone[p] = true
	if !ex.eng.initAllowed(p.Pkg.Path()) {
		return
	}
	ex.eng.buildPkg(p)
	initFn := p.Func("init")
	if initFn == nil || initFn.Blocks == nil {
		return
	}
	savedInit := ex.inInit
	ex.inInit = true
	defer func() { ex.inInit = savedInit }()
	func() {
		defer func() {
			if r := recover(); r != nil {
				if pe, ok := r.(pathEnd); ok && (pe.status == "unsupported") {
					ex.eng.initWarn(p.Pkg.Path(), pe.msg)
					return
				}
				panic(r)
			}
		}()
		ex.callBody(nil, initFn, nil)
	}()
}

var initWarnMu sync.Mutex
var initWarns = map[string]string{}

func (e *Engine) initWarn(pkg, msg string) {
	initWarnMu.Lock()
	if _, ok := initWarns[pkg]; !ok {
		initWarns[pkg] = msg
		fmt.Fprintf(os.Stderr, "init warning: %s: %s\n", pkg, trunc(msg, 300))
	}
	initWarnMu.Unlock()
}

// ---------- exploration ----------

type PathResult struct {
	Status    string
	Msg       string
	Decisions []Dec
	Viols     []Violation
	Reached   []string
	Steps     int
	Model     map[string]string
	Obs       []ObsVal
	Alts      [][]Dec
}

type ObsVal struct {
	Label string
	Value string
}

type HarnessResult struct {
	Name        string
	Paths       int
	Completed   int
	Statuses    map[string]int
	Viols       []Violation
	Reached     map[string]int
	Incon       []string
	Steps       int64
	Queries     int
	SolverTime  time.Duration
	Wall        time.Duration
	Samples     []PathSample
	MaxDepth    int
	SolverKills int
}

type PathSample struct {
	Status    string            `json:"status"`
	Msg       string            `json:"msg,omitempty"`
	Decisions int               `json:"decisions"`
	Model     map[string]string `json:"model,omitempty"`
	Obs       []ObsVal          `json:"obs,omitempty"`
}

func (e *Engine) findHarness(name string) *ssa.Function {
	for _, p := range e.pkgs {
		sp := e.ssaPkgs[p.PkgPath]
		if sp == nil {
			continue
		}
		if fn := sp.Func(name); fn != nil {
			e.buildPkg(sp)
			return fn
		}
	}
	return nil
}

// ListHarnesses returns exported functions with the given prefix in the root packages.
func (e *Engine) ListHarnesses(prefix string) []string {
	var out []string
	for _, p := range e.pkgs {
		sp := e.ssaPkgs[p.PkgPath]
		if sp == nil {
			continue
		}
		for name, m := range sp.Members {
			if fn, ok := m.(*ssa.Function); ok && strings.HasPrefix(name, prefix) && fn.Signature.Params().Len() == 0 {
				out = append(out, name)
			}
		}
	}
	sort.Strings(out)
	return out
}

func (e *Engine) runPath(sol *Solver, fn *ssa.Function, decisions []Dec) (res PathResult) {
	ex := &Exec{
		eng: e, sol: sol, harness: fn.Name(),
		globals:   map[*ssa.Global]*Value{},
		decisions: append([]Dec(nil), decisions...),
		maxSteps:  e.cfg.MaxSteps,
		inputSet:  map[string]bool{},
		reached:   map[string]bool{},
		nameCnt:   map[string]int{},
		regions:   map[string]*Term{},
		ufApps:    map[string][]ufApp{},
		side:      map[interface{}]interface{}{},
		initDone:  map[*ssa.Package]bool{},
		trace:     e.cfg.Trace,
	}
	sol.PopTo(0)
	sol.Push()
	defer func() {
		r := recover()
		ex.killThreads()
		res.Decisions = ex.decisions
		res.Viols = ex.viols
		res.Steps = ex.steps
		res.Alts = ex.alts
		for k := range ex.reached {
			res.Reached = append(res.Reached, k)
		}
		switch r := r.(type) {
		case nil:
			res.Status = "ok"
		case pathEnd:
			res.Status, res.Msg = r.status, r.msg
		case targetPanic:
			res.Status = "panic"
			res.Msg = ex.panicString(r.v)
		default:
			res.Status = "engine-error"
			res.Msg = fmt.Sprintf("%v @ %s\n%s", r, ex.stack(), debug.Stack())
			if os.Getenv("GOSX_DEBUG") != "" {
				fmt.Fprintln(os.Stderr, res.Msg)
			}
		}
		if res.Status == "panic" {
			// uncaught target panic: a violation unless the harness expected it
			ex.recordViolation("panic", "uncaught panic: "+res.Msg, nil)
			res.Viols = ex.viols
		}
		if res.Status == "blocked" {
			// the code under test waits for ever (nothing can wake it up)
			ex.recordViolation("blocked", "blocked for ever: "+res.Msg, nil)
			res.Viols = ex.viols
		}
		if res.Status == "ok" || res.Status == "panic" || res.Status == "blocked" {
			res.Model, res.Obs = ex.finalModel()
		}
		sol.PopTo(0)
		e.stats.instrs.Add(int64(ex.steps))
	}()
	if fn.Pkg != nil {
		ex.initPackage(fn.Pkg)
	}
	ex.callSSA(nil, token.NoPos, fn, nil, nil)
	return
}

func (ex *Exec) panicString(v Value) string {
	if itf, ok := v.(Iface); ok {
		if itf.T == nil {
			return "nil"
		}
		switch x := itf.V.(type) {
		case string:
			return x
		case SymStr:
			return "<symbolic string>"
		}
		// error values: try Error()
		if m := ex.eng.prog.LookupMethod(itf.T, nil, "Error"); m != nil {
			var s string
			func() {
				defer func() {
					if r := recover(); r != nil {
						s = fmt.Sprintf("<%v value>", itf.T)
					}
				}()
				r := ex.callSSA(nil, token.NoPos, m, []Value{itf.V}, nil)
				if rs, ok := r.(string); ok {
					s = rs
				} else {
					s = fmt.Sprintf("<%v value, symbolic message>", itf.T)
				}
			}()
			return s
		}
		return fmt.Sprintf("(%v) %s", itf.T, valString(itf.V))
	}
	return valString(v)
}

// Explore runs all paths of one harness with a pool of workers.
func (e *Engine) Explore(name string) (*HarnessResult, error) {
	fn := e.findHarness(name)
	if fn == nil {
		return nil, fmt.Errorf("harness %s not found", name)
	}
	hr := &HarnessResult{Name: name, Statuses: map[string]int{}, Reached: map[string]int{}}
	t0 := time.Now()
	var mu sync.Mutex
	cond := sync.NewCond(&mu)
	work := [][]Dec{nil}
	active := 0
	nworkers := e.cfg.Workers
	if nworkers < 1 {
		nworkers = 1
	}
	var wg sync.WaitGroup
	stop := false
	done := make(chan struct{})
	if os.Getenv("GOSX_PROGRESS") != "" {
		go func() {
			for {
				select {
				case <-done:
					return
				case <-time.After(10 * time.Second):
					mu.Lock()
					fmt.Fprintf(os.Stderr, "progress %s: paths=%d queue=%d active=%d statuses=%v steps=%d\n", name, hr.Paths, len(work), active, hr.Statuses, hr.Steps)
					mu.Unlock()
					dumpForks()
				}
			}
		}()
	}
	for w := 0; w < nworkers; w++ {
		wg.Add(1)
		go func() {
			defer wg.Done()
			var sol *Solver
			defer func() {
				if sol != nil {
					mu.Lock()
					hr.Queries += sol.Queries
					hr.SolverTime += sol.Time
					for _, er := range sol.Errors {
						hr.Incon = append(hr.Incon, "solver error: "+trunc(er, 300))
					}
					mu.Unlock()
					sol.Close()
				}
			}()
			for {
				mu.Lock()
				for len(work) == 0 && active > 0 && !stop {
					cond.Wait()
				}
				if stop || (len(work) == 0 && active == 0) {
					mu.Unlock()
					cond.Broadcast()
					return
				}
				// depth-first: take the last
				d := work[len(work)-1]
				work = work[:len(work)-1]
				active++
				mu.Unlock()
				if sol != nil && sol.Dead {
					mu.Lock()
					hr.Queries += sol.Queries
					hr.SolverTime += sol.Time
					hr.SolverKills += sol.Timeouts
					mu.Unlock()
					sol.Close()
					sol = nil
				}
				if sol == nil {
					var err error
					sol, err = NewSolver(e.cfg.Solver, e.cfg.TimeoutMs)
					if err != nil {
						panic(err)
					}
				}
				res := e.runPath(sol, fn, d)
				mu.Lock()
				active--
				hr.Paths++
				hr.Statuses[res.Status]++
				hr.Steps += int64(res.Steps)
				if len(res.Decisions) > hr.MaxDepth {
					hr.MaxDepth = len(res.Decisions)
				}
				for _, r := range res.Reached {
					hr.Reached[r]++
				}
				hr.Viols = append(hr.Viols, res.Viols...)
				switch res.Status {
				case "violated":
					hr.Completed++
				case "ok", "panic", "blocked":
					hr.Completed++
					if len(hr.Samples) < 6 || (hr.Completed%37 == 0 && len(hr.Samples) < 24) {
						hr.Samples = append(hr.Samples, PathSample{res.Status, trunc(res.Msg, 200), len(res.Decisions), res.Model, res.Obs})
					}
				case "infeasible":
				default:
					if len(hr.Incon) < 20 {
						hr.Incon = append(hr.Incon, res.Status+": "+trunc(res.Msg, 600))
					}
				}
				work = append(work, res.Alts...)
				if e.cfg.MaxPaths > 0 && hr.Paths >= e.cfg.MaxPaths {
					stop = true
					hr.Incon = append(hr.Incon, fmt.Sprintf("budget: path limit %d reached", e.cfg.MaxPaths))
				}
				mu.Unlock()
				cond.Broadcast()
			}
		}()
	}
	wg.Wait()
	close(done)
	hr.Wall = time.Since(t0)
	return hr, nil
}

func overlayFromDir(dir, virtualRoot string) (map[string][]byte, map[string]string, error) {
	// dir contains files laid out relative to the module root, e.g.
	//   block/zz_verif_c12.go , internal/zzsym/zzsym.go
	ov := map[string][]byte{}
	real := map[string]string{}
	err := filepath.Walk(dir, func(p string, info os.FileInfo, err error) error {
		if err != nil {
			return err
		}
		if info.IsDir() || !strings.HasSuffix(p, ".go") {
			return nil
		}
		rel, _ := filepath.Rel(dir, p)
		b, err := os.ReadFile(p)
		if err != nil {
			return err
		}
		ov[filepath.Join(virtualRoot, rel)] = b
		real[filepath.Join(virtualRoot, rel)] = p
		return nil
	})
	return ov, real, err
}
