package main

import (
	"fmt"
	"go/token"
	"go/types"
	"os"
	"runtime/debug"
	"slices"
	"strings"

	"golang.org/x/tools/go/ssa"
)

// ---------- path-level control ----------

type Dec struct {
	Kind byte   // 'b' branch, 'c' concretize-eq, 'n' concretize-neq, 's' choice
	V    uint64 // branch: 0/1 ; concretize: value ; choice: index
}

type pathEnd struct {
	status string // ok, panic, blocked, unsupported, budget, infeasible, abort
	msg    string
}

type targetPanic struct{ v Value }

type engineBug struct{ msg, stack, gostack string }

func (b engineBug) String() string { return b.msg + " @ " + b.stack + "\n" + b.gostack }

type Violation struct {
	Label     string
	Harness   string
	Msg       string
	Model     map[string]string
	Decisions []Dec
	Known     string // id of a known finding that covers it
	Stack     string
}

type Obs struct {
	Label string
	Kind  string // u64, bool, bytes, str
	Terms []*Term
	Conc  string
}

type inputVar struct {
	Name string
	T    *Term
}

type Exec struct {
	eng        *Engine
	sol        *Solver
	harness    string
	globals    map[*ssa.Global]*Value
	decisions  []Dec
	pos        int
	alts       [][]Dec
	pc         []*Term
	steps      int
	maxSteps   int
	deadlineAt    int // armed step deadline (0 = none), see zzsym.StepDeadline
	deadlineLabel string
	depth      int
	inputs     []inputVar
	inputSet   map[string]bool
	obs        []Obs
	viols      []Violation
	reached    map[string]bool
	nameCnt    map[string]int
	regions    map[string]*Term
	ufApps     map[string][]ufApp // per UF family, for injectivity axioms
	side       map[interface{}]interface{}
	initDone   map[*ssa.Package]bool
	trace      bool
	curFrame   *frame
	idleHooks  []Value
	clock      *Term
	timers     []*Chan
	instrs     int
	inInit     bool
	unsupp     string
	freshCnt   int
	known      map[string]bool
	mergeBase  map[ssa.Value]Value
	selForks   map[*ssa.Select]int
	idleSpins  int
	inCallback bool
	thr        *threadState
}

type ufApp struct {
	arg *Term
	res *Term
}

func (ex *Exec) end(status, msg string) {
	panic(pathEnd{status, msg})
}

func (ex *Exec) unsupported(msg string) {
	st := ""
	if ex.curFrame != nil {
		st = ex.stack()
	}
	panic(pathEnd{"unsupported", msg + " @ " + st})
}

func (ex *Exec) stack() string {
	var parts []string
	for fr := ex.curFrame; fr != nil && len(parts) < 12; fr = fr.caller {
		pos := ""
		if fr.cur != nil {
			p := ex.eng.prog.Fset.Position(fr.cur.Pos())
			if p.IsValid() {
				pos = fmt.Sprintf(":%d", p.Line)
			}
		}
		parts = append(parts, shortName(fr.fn.String())+pos)
	}
	return strings.Join(parts, " < ")
}

func shortName(s string) string {
	s = strings.ReplaceAll(s, "github.com/evstack/ev-node/", "")
	return s
}

func (ex *Exec) addPC(t *Term) {
	if t.S == "true" {
		return
	}
	ex.pc = append(ex.pc, t)
	ex.sol.Assert(t)
	if ex.known == nil {
		ex.known = map[string]bool{}
	}
	ex.known[t.S] = true
	if rest, ok := strings.CutPrefix(t.S, "(not "); ok {
		ex.known[rest[:len(rest)-1]] = false
	}
}

// branch decides a (possibly symbolic) condition.
func (ex *Exec) branch(c Value) bool {
	if b, ok := c.(bool); ok {
		return b
	}
	t := c.(SymBool).T
	if v, ok := ex.known[t.S]; ok {
		return v
	}
	if ex.pos < len(ex.decisions) {
		d := ex.decisions[ex.pos]
		ex.pos++
		if d.Kind != 'b' {
			ex.end("abort", fmt.Sprintf("decision kind mismatch at %d: want b got %c", ex.pos-1, d.Kind))
		}
		if d.V == 1 {
			ex.addPC(t)
			return true
		}
		ex.addPC(Not(t))
		return false
	}
	r := ex.sol.Check(t)
	if r == Unknown {
		ex.end("unknown", "solver unknown at branch: "+trunc(t.S, 200))
	}
	if r == Unsat {
		ex.decisions = append(ex.decisions, Dec{'b', 0})
		ex.pos++
		ex.addPC(Not(t))
		return false
	}
	r2 := ex.sol.Check(Not(t))
	if r2 == Unknown {
		ex.end("unknown", "solver unknown at branch (neg): "+trunc(t.S, 200))
	}
	if r2 == Sat {
		alt := append(slices.Clone(ex.decisions[:ex.pos]), Dec{'b', 0})
		ex.alts = append(ex.alts, alt)
		ex.eng.noteFork(ex)
	}
	ex.decisions = append(ex.decisions, Dec{'b', 1})
	ex.pos++
	ex.addPC(t)
	return true
}

// assume adds c to the path condition; an infeasible assumption ends the path.
func (ex *Exec) assume(c Value) {
	if b, ok := c.(bool); ok {
		if !b {
			ex.end("infeasible", "assume(false)")
		}
		return
	}
	t := c.(SymBool).T
	if ex.pos < len(ex.decisions) {
		// replaying: feasibility was established when the suffix was created,
		// except if this assume is beyond the creating point; cheap to recheck
		// only when at the frontier.
		ex.addPC(t)
		return
	}
	r := ex.sol.Check(t)
	if r == Unsat {
		ex.end("infeasible", "assumption infeasible")
	}
	if r == Unknown {
		ex.end("unknown", "solver unknown at assume")
	}
	ex.addPC(t)
}

// concretize picks a concrete value for a symbolic integer, forking over all
// feasible values (the harness must have bounded the range).
func (ex *Exec) concretize(i Int) uint64 {
	if i.T == nil {
		return i.C
	}
	for {
		if ex.pos < len(ex.decisions) {
			d := ex.decisions[ex.pos]
			ex.pos++
			switch d.Kind {
			case 'c':
				ex.addPC(Eq(i.T, BVConst(d.V, int(i.W))))
				return d.V
			case 'n':
				ex.addPC(Not(Eq(i.T, BVConst(d.V, int(i.W)))))
				continue
			default:
				ex.end("abort", "decision kind mismatch (concretize)")
			}
		}
		r, vals := ex.sol.CheckModel([]*Term{i.T})
		if r == Unknown {
			ex.end("unknown", "solver unknown at concretize")
		}
		if r == Unsat {
			ex.end("infeasible", "concretize: path infeasible")
		}
		v, ok := parseBVValue(vals[0])
		if !ok {
			ex.end("abort", "concretize: cannot parse "+vals[0])
		}
		ex.eng.stats.concretizations.Add(1)
		// alternative: value differs
		neq := Not(Eq(i.T, BVConst(v, int(i.W))))
		r2 := ex.sol.Check(neq)
		if r2 == Unknown {
			ex.end("unknown", "solver unknown at concretize (alt)")
		}
		if r2 == Sat {
			alt := append(slices.Clone(ex.decisions[:ex.pos]), Dec{'n', v})
			ex.alts = append(ex.alts, alt)
			ex.eng.noteFork(ex)
		}
		ex.decisions = append(ex.decisions, Dec{'c', v})
		ex.pos++
		ex.addPC(Eq(i.T, BVConst(v, int(i.W))))
		return v
	}
}

// choose forks over n alternatives that are all possible.
func (ex *Exec) choose(n int) int {
	if n <= 1 {
		return 0
	}
	if ex.pos < len(ex.decisions) {
		d := ex.decisions[ex.pos]
		ex.pos++
		if d.Kind != 's' {
			ex.end("abort", "decision kind mismatch (choose)")
		}
		return int(d.V)
	}
	for k := 1; k < n; k++ {
		alt := append(slices.Clone(ex.decisions[:ex.pos]), Dec{'s', uint64(k)})
		ex.alts = append(ex.alts, alt)
	}
	ex.decisions = append(ex.decisions, Dec{'s', 0})
	ex.pos++
	return 0
}

// chooseAmong forks over the given candidate values (all believed possible)
// and returns the chosen one; the decision records the value itself.
func (ex *Exec) chooseAmong(cands []int) int {
	for _, c := range cands[1:] {
		alt := append(slices.Clone(ex.decisions[:ex.pos]), Dec{'s', uint64(c)})
		ex.alts = append(ex.alts, alt)
	}
	ex.decisions = append(ex.decisions, Dec{'s', uint64(cands[0])})
	ex.pos++
	return cands[0]
}

func (ex *Exec) fresh(prefix string, sort Sort) *Term {
	ex.freshCnt++
	// the sort is part of the name: one solver serves many paths, and the n-th fresh
	// value of one path need not have the sort of the n-th of another
	return Var(fmt.Sprintf("%s!%s.%d.%d!%d", ex.harness, prefix, sort.K, sort.W, ex.freshCnt), sort)
}

func (ex *Exec) runtimeErrorString() types.Type { return ex.eng.runtimeErrorString }

func (ex *Exec) rtPanic(msg string) {
	panic(targetPanic{Iface{ex.eng.runtimeErrorString, msg}})
}

// ---------- frames ----------

type deferred struct {
	fn    Value
	args  []Value
	instr *ssa.Defer
	tail  *deferred
}

type frame struct {
	ex               *Exec
	caller           *frame
	fn               *ssa.Function
	block, prevBlock *ssa.BasicBlock
	env              map[ssa.Value]Value
	locals           []Value
	defers           *deferred
	result           Value
	panicking        bool
	panic            interface{}
	phitemps         []Value
	cur              ssa.Instruction
	phisDone         bool
}

func (fr *frame) get(key ssa.Value) Value {
	switch key := key.(type) {
	case nil:
		return nil
	case *ssa.Function, *ssa.Builtin:
		return key
	case *ssa.Const:
		return constValue(key)
	case *ssa.Global:
		return fr.ex.global(key)
	}
	if r, ok := fr.env[key]; ok {
		return r
	}
	panic(fmt.Sprintf("get: no value for %T: %v in %s", key, key.Name(), fr.fn))
}

func (ex *Exec) global(g *ssa.Global) *Value {
	if r, ok := ex.globals[g]; ok {
		return r
	}
	// lazily create; make sure the owning package was initialised if allowed
	cell := zero(deref(g.Type()))
	p := &cell
	ex.globals[g] = p
	if g.Pkg != nil && !ex.initDone[g.Pkg] && !ex.inInit {
		ex.initPackage(g.Pkg)
	}
	return p
}

func isEngineAbort(p interface{}) bool {
	switch p.(type) {
	case pathEnd, threadKill:
		return true
	}
	return false
}

func (fr *frame) runDefer(d *deferred) {
	var ok bool
	defer func() {
		if !ok {
			r := recover()
			if isEngineAbort(r) {
				panic(r)
			}
			if _, isT := r.(targetPanic); !isT {
				panic(r) // interpreter bug: propagate
			}
			fr.panicking = true
			fr.panic = r
		}
	}()
	fr.ex.call(fr, d.instr.Pos(), d.fn, d.args)
	ok = true
}

func (fr *frame) runDefers() {
	for d := fr.defers; d != nil; d = d.tail {
		fr.runDefer(d)
	}
	fr.defers = nil
	if fr.panicking {
		panic(fr.panic)
	}
}

func (ex *Exec) lookupMethod(typ types.Type, meth *types.Func) *ssa.Function {
	return ex.eng.prog.LookupMethod(typ, meth.Pkg(), meth.Name())
}

func (ex *Exec) prepareCall(fr *frame, call *ssa.CallCommon) (fn Value, args []Value) {
	v := fr.get(call.Value)
	if call.Method == nil {
		fn = v
	} else {
		recv := v.(Iface)
		if recv.T == nil {
			ex.rtPanic("runtime error: invalid memory address or nil pointer dereference (method " + call.Method.Name() + " on nil interface)")
		}
		if rt, ok := recv.V.(RType); ok {
			_ = rt
			ex.unsupported("reflect.Type method " + call.Method.Name())
		}
		f := ex.lookupMethod(recv.T, call.Method)
		if f == nil {
			ex.unsupported(fmt.Sprintf("method set for dynamic type %v does not contain %s", recv.T, call.Method))
		}
		fn = f
		args = append(args, recv.V)
	}
	for _, arg := range call.Args {
		args = append(args, fr.get(arg))
	}
	return
}

func (ex *Exec) call(caller *frame, callpos token.Pos, fn Value, args []Value) Value {
	switch fn := fn.(type) {
	case *ssa.Function:
		if fn == nil {
			ex.rtPanic("runtime error: invalid memory address or nil pointer dereference (call of nil func)")
		}
		return ex.callSSA(caller, callpos, fn, args, nil)
	case *Closure:
		return ex.callSSA(caller, callpos, fn.Fn, args, fn.Env)
	case *ssa.Builtin:
		return ex.callBuiltin(caller, fn, args)
	case *NativeFunc:
		return fn.F(ex, caller, args)
	}
	panic(fmt.Sprintf("cannot call %T", fn))
}

// NativeFunc is an engine-implemented function value (e.g. cancel funcs).
type NativeFunc struct {
	Name string
	F    func(ex *Exec, caller *frame, args []Value) Value
}

const maxDepth = 400

const selectForkBound = 4

func (ex *Exec) callSSA(caller *frame, callpos token.Pos, fn *ssa.Function, args []Value, env []Value) Value {
	fr := &frame{ex: ex, caller: caller, fn: fn}
	if ex.trace {
		fmt.Fprintf(os.Stderr, "%*sENTER %s\n", ex.depth, "", fn)
	}
	name := fn.String()
	if fn.Pkg != nil && fn.Name() == "init" && fn.Signature.Recv() == nil && fn.Pkg.Func("init") == fn {
		ex.initPackage(fn.Pkg)
		return nil
	}
	if fn.Parent() == nil {
		if ext := ex.eng.lookupExtern(fn, name); ext != nil {
			saved := ex.curFrame
			fr.cur = nil
			ex.curFrame = &frame{ex: ex, caller: caller, fn: fn}
			defer func() { ex.curFrame = saved }()
			return ext(ex, caller, fn, args)
		}
		if rep := ex.eng.replacements[name]; rep != nil {
			return ex.callSSA(caller, callpos, rep, args, nil)
		}
	}
	if fn.Blocks == nil {
		if fn.Pkg != nil {
			ex.eng.buildPkg(fn.Pkg)
		}
		if fn.Blocks == nil {
			ex.curFrame = caller
			ex.unsupported("no code for function: " + name)
		}
	}
	if fn.TypeParams().Len() > 0 && len(fn.TypeArgs()) == 0 {
		ex.unsupported("uninstantiated generic " + name)
	}
	ex.depth++
	if ex.depth > maxDepth {
		ex.end("budget", "recursion depth exceeded in "+name)
	}
	saved := ex.curFrame
	ex.curFrame = fr
	defer func() { ex.depth--; ex.curFrame = saved }()

	fr.env = make(map[ssa.Value]Value, 16)
	fr.block = fn.Blocks[0]
	fr.locals = make([]Value, len(fn.Locals))
	for i, l := range fn.Locals {
		fr.locals[i] = zero(deref(l.Type()))
		fr.env[l] = &fr.locals[i]
	}
	if len(args) != len(fn.Params) {
		panic(fmt.Sprintf("arity mismatch calling %s: %d args, %d params", fn, len(args), len(fn.Params)))
	}
	for i, p := range fn.Params {
		fr.env[p] = args[i]
	}
	for i, fv := range fn.FreeVars {
		fr.env[fv] = env[i]
	}
	for fr.block != nil {
		ex.runFrame(fr)
	}
	return fr.result
}

func (ex *Exec) runFrame(fr *frame) {
	defer func() {
		if fr.block == nil {
			return // normal return
		}
		r := recover()
		if isEngineAbort(r) {
			panic(r)
		}
		if _, isT := r.(targetPanic); !isT {
			// interpreter bug or Go runtime error inside the engine
			if _, isB := r.(engineBug); !isB {
				ex.curFrame = fr
				r = engineBug{fmt.Sprint(r), ex.stack(), string(debug.Stack())}
			}
			panic(r)
		}
		fr.panicking = true
		fr.panic = r
		ex.curFrame = fr
		fr.runDefers()
		fr.block = fr.fn.Recover
		if fr.block == nil {
			// recovered in a function without named results: zero result
			fr.result = zeroResult(fr.fn)
		}
	}()
	for {
		var nonPhis []ssa.Instruction
		if fr.phisDone {
			fr.phisDone = false
			nonPhis = fr.block.Instrs[len(joinPhis(fr.block)):]
		} else {
			nonPhis = executePhis(fr)
		}
		for _, instr := range nonPhis {
			ex.steps++
			if ex.deadlineAt != 0 && ex.steps > ex.deadlineAt {
				ex.deadlineAt = 0
				ex.recordViolation(ex.deadlineLabel, fmt.Sprintf("still running (not blocked, no progress to a return) after the step deadline, in %s", fr.fn), nil)
				ex.end("violated", "step deadline exceeded: "+ex.deadlineLabel)
			}
			if ex.steps > ex.maxSteps {
				ex.end("budget", fmt.Sprintf("step budget %d exceeded in %s", ex.maxSteps, fr.fn))
			}
			fr.cur = instr
			if ex.trace {
				if v, ok := instr.(ssa.Value); ok {
					fmt.Fprintf(os.Stderr, "%*s  %s = %s\n", ex.depth, "", v.Name(), instr)
				} else {
					fmt.Fprintf(os.Stderr, "%*s  %s\n", ex.depth, "", instr)
				}
			}
			if ex.visitInstr(fr, instr) == kReturn {
				return
			}
		}
	}
}

func zeroResult(fn *ssa.Function) Value {
	res := fn.Signature.Results()
	switch res.Len() {
	case 0:
		return nil
	case 1:
		return zero(res.At(0).Type())
	}
	t := make(Tuple, res.Len())
	for i := range t {
		t[i] = zero(res.At(i).Type())
	}
	return t
}

func executePhis(fr *frame) []ssa.Instruction {
	firstNonPhi := -1
	for i, instr := range fr.block.Instrs {
		if _, ok := instr.(*ssa.Phi); !ok {
			firstNonPhi = i
			break
		}
	}
	nonPhis := fr.block.Instrs[firstNonPhi:]
	if firstNonPhi > 0 {
		phis := fr.block.Instrs[:firstNonPhi]
		predIndex := slices.Index(fr.block.Preds, fr.prevBlock)
		fr.phitemps = fr.phitemps[:0]
		for _, phi := range phis {
			phi := phi.(*ssa.Phi)
			fr.phitemps = append(fr.phitemps, fr.get(phi.Edges[predIndex]))
		}
		for i, phi := range phis {
			fr.env[phi.(*ssa.Phi)] = fr.phitemps[i]
		}
	}
	return nonPhis
}

type continuation int

const (
	kNext continuation = iota
	kReturn
	kJump
)

func (ex *Exec) derefPtr(v Value, what string) *Value {
	p, ok := v.(*Value)
	if !ok {
		panic(fmt.Sprintf("derefPtr: %T (%s)", v, what))
	}
	if p == nil {
		ex.rtPanic("runtime error: invalid memory address or nil pointer dereference")
	}
	return p
}

// index computes a concrete in-bounds index; forks a panic path if the index
// can be out of range.
func (ex *Exec) index(idx Value, n int, signed bool) int {
	i := idx.(Int)
	if i.T == nil {
		var v int64
		if signed {
			v = i.S64()
		} else {
			if i.C > uint64(1<<62) {
				v = -1
			} else {
				v = int64(i.C)
			}
		}
		if v < 0 || v >= int64(n) {
			ex.rtPanic(fmt.Sprintf("runtime error: index out of range [%d] with length %d", v, n))
		}
		return int(v)
	}
	inb := mkBool(Bin("bvult", SBool, i.T, BVConst(uint64(n), int(i.W))))
	if !ex.branch(inb) {
		ex.rtPanic(fmt.Sprintf("runtime error: index out of range [symbolic] with length %d", n))
	}
	return int(ex.concretize(i))
}

func (ex *Exec) visitInstr(fr *frame, instr ssa.Instruction) continuation {
	switch instr := instr.(type) {
	case *ssa.DebugRef:

	case *ssa.UnOp:
		fr.env[instr] = ex.unop(instr, fr.get(instr.X))

	case *ssa.BinOp:
		fr.env[instr] = ex.binop(instr.Op, instr.X.Type(), fr.get(instr.X), fr.get(instr.Y))

	case *ssa.Call:
		fn, args := ex.prepareCall(fr, &instr.Call)
		fr.env[instr] = ex.call(fr, instr.Pos(), fn, args)

	case *ssa.ChangeInterface:
		fr.env[instr] = fr.get(instr.X)

	case *ssa.ChangeType:
		fr.env[instr] = fr.get(instr.X)

	case *ssa.Convert:
		fr.env[instr] = ex.conv(instr.Type(), instr.X.Type(), fr.get(instr.X))

	case *ssa.SliceToArrayPointer:
		s := fr.get(instr.X).(Slice)
		n := int(deref(instr.Type()).Underlying().(*types.Array).Len())
		if len(s) < n {
			ex.rtPanic("runtime error: cannot convert slice with length to array or pointer to array")
		}
		if s == nil {
			fr.env[instr] = (*Value)(nil)
		} else {
			// aliasing of the backing store is lost; arrays are value-boxed.
			var cell Value = Array(s[:n:n])
			fr.env[instr] = &cell
		}

	case *ssa.MakeInterface:
		fr.env[instr] = Iface{T: instr.X.Type(), V: copyVal(fr.get(instr.X))}

	case *ssa.Extract:
		fr.env[instr] = fr.get(instr.Tuple).(Tuple)[instr.Index]

	case *ssa.Slice:
		fr.env[instr] = ex.slice(instr, fr.get(instr.X), fr.get(instr.Low), fr.get(instr.High), fr.get(instr.Max))

	case *ssa.Return:
		switch len(instr.Results) {
		case 0:
		case 1:
			fr.result = copyVal(fr.get(instr.Results[0]))
		default:
			var res []Value
			for _, r := range instr.Results {
				res = append(res, copyVal(fr.get(r)))
			}
			fr.result = Tuple(res)
		}
		fr.block = nil
		return kReturn

	case *ssa.RunDefers:
		fr.runDefers()

	case *ssa.Panic:
		panic(targetPanic{fr.get(instr.X)})

	case *ssa.Send:
		ex.chanSend(fr.get(instr.Chan).(*Chan), copyVal(fr.get(instr.X)))

	case *ssa.Store:
		store(ex.derefPtr(fr.get(instr.Addr), "store"), fr.get(instr.Val))

	case *ssa.If:
		cv := fr.get(instr.Cond)
		if sb, isSym := cv.(SymBool); isSym && ex.tryMerge(fr, instr, sb.T) {
			return kJump
		}
		succ := 1
		if ex.branch(cv) {
			succ = 0
		}
		fr.prevBlock, fr.block = fr.block, fr.block.Succs[succ]
		return kJump

	case *ssa.Jump:
		fr.prevBlock, fr.block = fr.block, fr.block.Succs[0]
		return kJump

	case *ssa.Defer:
		fn, args := ex.prepareCall(fr, &instr.Call)
		defers := &fr.defers
		if instr.DeferStack != nil {
			if into := fr.get(instr.DeferStack); into != nil {
				defers = into.(**deferred)
			}
		}
		*defers = &deferred{fn: fn, args: args, instr: instr, tail: *defers}

	case *ssa.Go:
		fn, args := ex.prepareCall(fr, &instr.Call)
		ex.goStmt(fr, instr, fn, args)

	case *ssa.MakeChan:
		n := ex.concretize(fr.get(instr.Size).(Int))
		fr.env[instr] = &Chan{Cap: int(n)}

	case *ssa.Alloc:
		var addr *Value
		if instr.Heap {
			addr = new(Value)
			fr.env[instr] = addr
		} else {
			addr = fr.env[instr].(*Value)
		}
		*addr = zero(deref(instr.Type()))

	case *ssa.MakeSlice:
		c := ex.concretize(fr.get(instr.Cap).(Int))
		l := ex.concretize(fr.get(instr.Len).(Int))
		if c > 1<<24 || l > c {
			ex.rtPanic("runtime error: makeslice: len out of range")
		}
		sl := make(Slice, c)
		tElt := instr.Type().Underlying().(*types.Slice).Elem()
		for i := range sl {
			sl[i] = zero(tElt)
		}
		fr.env[instr] = sl[:l]

	case *ssa.MakeMap:
		fr.env[instr] = &Map{KT: instr.Type().Underlying().(*types.Map).Key()}

	case *ssa.Range:
		fr.env[instr] = ex.rangeIter(fr.get(instr.X), instr.X.Type())

	case *ssa.Next:
		fr.env[instr] = fr.get(instr.Iter).(iter).next(ex)

	case *ssa.FieldAddr:
		p := ex.derefPtr(fr.get(instr.X), "fieldaddr")
		fr.env[instr] = &(*p).(Struct)[instr.Field]

	case *ssa.Field:
		fr.env[instr] = copyVal(fr.get(instr.X).(Struct)[instr.Field])

	case *ssa.IndexAddr:
		x := fr.get(instr.X)
		idx := fr.get(instr.Index)
		_, signed, _ := intWidth(instr.Index.Type())
		switch x := x.(type) {
		case Slice:
			fr.env[instr] = &x[ex.index(idx, len(x), signed)]
		case *Value:
			if x == nil {
				ex.rtPanic("runtime error: invalid memory address or nil pointer dereference")
			}
			a := (*x).(Array)
			fr.env[instr] = &a[ex.index(idx, len(a), signed)]
		default:
			panic(fmt.Sprintf("unexpected x type in IndexAddr: %T", x))
		}

	case *ssa.Index:
		x := fr.get(instr.X)
		idx := fr.get(instr.Index)
		_, signed, _ := intWidth(instr.Index.Type())
		switch x := x.(type) {
		case Array:
			fr.env[instr] = copyVal(x[ex.index(idx, len(x), signed)])
		case string:
			fr.env[instr] = ex.strIndex(x, idx, signed)
		case SymStr:
			if x.B != nil {
				fr.env[instr] = x.B[ex.index(idx, len(x.B), signed)]
				break
			}
			i := idx.(Int)
			inb := mkBool(Bin("bvult", SBool, i.Term(), SeqLen(x.T)))
			if !ex.branch(inb) {
				ex.rtPanic("runtime error: index out of range (string)")
			}
			fr.env[instr] = SInt(SeqNth(x.T, i.Term()))
		default:
			panic(fmt.Sprintf("unexpected x type in Index: %T", x))
		}

	case *ssa.Lookup:
		fr.env[instr] = ex.lookup(instr, fr.get(instr.X), fr.get(instr.Index))

	case *ssa.MapUpdate:
		m := fr.get(instr.Map).(*Map)
		if m == nil {
			ex.rtPanic("assignment to entry in nil map")
		}
		ex.mapSet(m, fr.get(instr.Key), copyVal(fr.get(instr.Value)))

	case *ssa.TypeAssert:
		fr.env[instr] = ex.typeAssert(instr, fr.get(instr.X).(Iface))

	case *ssa.MakeClosure:
		var bindings []Value
		for _, binding := range instr.Bindings {
			bindings = append(bindings, fr.get(binding))
		}
		fr.env[instr] = &Closure{instr.Fn.(*ssa.Function), bindings}

	case *ssa.Select:
		fr.env[instr] = ex.selectStmt(fr, instr)

	default:
		panic(fmt.Sprintf("unexpected instruction: %T", instr))
	}
	return kNext
}

// strIndex indexes a concrete string; a symbolic index into a short string
// (lookup table) becomes an ite chain instead of forking.
func (ex *Exec) strIndex(x string, idx Value, signed bool) Value {
	i := idx.(Int)
	if i.T == nil || len(x) > 256 || len(x) == 0 {
		return CInt(uint64(x[ex.index(idx, len(x), signed)]), 8)
	}
	inb := mkBool(Bin("bvult", SBool, i.T, BVConst(uint64(len(x)), int(i.W))))
	if !ex.branch(inb) {
		ex.rtPanic(fmt.Sprintf("runtime error: index out of range [symbolic] with length %d", len(x)))
	}
	res := BVConst(uint64(x[len(x)-1]), 8)
	for k := len(x) - 2; k >= 0; k-- {
		res = Ite(Eq(i.T, BVConst(uint64(k), int(i.W))), BVConst(uint64(x[k]), 8), res)
	}
	return SInt(res)
}

func (ex *Exec) typeAssert(instr *ssa.TypeAssert, itf Iface) Value {
	var v Value
	err := ""
	if itf.T == nil {
		err = fmt.Sprintf("interface conversion: interface is nil, not %s", instr.AssertedType)
	} else if idst, ok := instr.AssertedType.Underlying().(*types.Interface); ok && !isTypeParam(instr.AssertedType) {
		v = itf
		if m, _ := types.MissingMethod(itf.T, idst, true); m != nil {
			err = fmt.Sprintf("interface conversion: %v is not %v: missing method %s", itf.T, idst, m.Name())
		}
	} else if types.Identical(itf.T, instr.AssertedType) {
		v = itf.V
	} else {
		err = fmt.Sprintf("interface conversion: interface is %s, not %s", itf.T, instr.AssertedType)
	}
	if instr.CommaOk {
		if err != "" {
			return Tuple{zero(instr.AssertedType), false}
		}
		return Tuple{v, true}
	}
	if err != "" {
		ex.rtPanic(err)
	}
	return v
}

func isTypeParam(t types.Type) bool {
	_, ok := t.(*types.TypeParam)
	return ok
}

// ---------- maps ----------

func (ex *Exec) mapFind(m *Map, key Value) int {
	if m == nil {
		return -1
	}
	for i, k := range m.K {
		e := ex.eqVal(m.KT, k, key)
		if ex.branch(e) {
			return i
		}
	}
	return -1
}

func (ex *Exec) mapSet(m *Map, key, val Value) {
	i := ex.mapFind(m, key)
	if i >= 0 {
		m.V[i] = val
		return
	}
	m.K = append(m.K, copyVal(key))
	m.V = append(m.V, val)
}

func (ex *Exec) mapDelete(m *Map, key Value) {
	i := ex.mapFind(m, key)
	if i >= 0 {
		m.K = append(m.K[:i:i], m.K[i+1:]...)
		m.V = append(m.V[:i:i], m.V[i+1:]...)
	}
}

func (ex *Exec) lookup(instr *ssa.Lookup, x, idx Value) Value {
	switch x := x.(type) {
	case *Map:
		i := ex.mapFind(x, idx)
		var v Value
		ok := i >= 0
		if ok {
			v = copyVal(x.V[i])
		} else {
			v = zero(instr.X.Type().Underlying().(*types.Map).Elem())
		}
		if instr.CommaOk {
			return Tuple{v, ok}
		}
		return v
	case string:
		_, signed, _ := intWidth(instr.Index.Type())
		return ex.strIndex(x, idx, signed)
	}
	panic(fmt.Sprintf("unexpected x type in Lookup: %T", x))
}

// ---------- iterators ----------

type iter interface {
	next(ex *Exec) Tuple
}

type mapIter struct {
	m    *Map
	keys []Value
	vals []Value
	i    int
}

func (it *mapIter) next(ex *Exec) Tuple {
	for it.i < len(it.keys) {
		k := it.keys[it.i]
		it.i++
		// skip entries deleted during iteration (by identity of key slot)
		found := false
		for j := range it.m.K {
			if ex.sameConcrete(it.m.K[j], k) {
				found = true
				return Tuple{true, copyVal(k), copyVal(it.m.V[j])}
			}
		}
		_ = found
	}
	return Tuple{false, nil, nil}
}

// sameConcrete: syntactic identity of two values (no solver).
func (ex *Exec) sameConcrete(a, b Value) bool {
	switch a := a.(type) {
	case Int:
		b, ok := b.(Int)
		if !ok {
			return false
		}
		if a.T == nil && b.T == nil {
			return a.C == b.C
		}
		return a.T != nil && b.T != nil && a.T.S == b.T.S
	case string:
		bs, ok := b.(string)
		return ok && a == bs
	case SymStr:
		bs, ok := b.(SymStr)
		if !ok {
			return false
		}
		if a.B != nil || bs.B != nil {
			if len(a.B) != len(bs.B) || a.B == nil || bs.B == nil {
				return false
			}
			for i := range a.B {
				if !ex.sameConcrete(a.B[i], bs.B[i]) {
					return false
				}
			}
			return true
		}
		return a.T.S == bs.T.S
	case bool:
		bb, ok := b.(bool)
		return ok && a == bb
	case Struct:
		bs, ok := b.(Struct)
		if !ok || len(a) != len(bs) {
			return false
		}
		for i := range a {
			if !ex.sameConcrete(a[i], bs[i]) {
				return false
			}
		}
		return true
	case Array:
		bs, ok := b.(Array)
		if !ok || len(a) != len(bs) {
			return false
		}
		for i := range a {
			if !ex.sameConcrete(a[i], bs[i]) {
				return false
			}
		}
		return true
	case Iface:
		bi, ok := b.(Iface)
		if !ok {
			return false
		}
		if a.T == nil || bi.T == nil {
			return a.T == nil && bi.T == nil
		}
		return types.Identical(a.T, bi.T) && ex.sameConcrete(a.V, bi.V)
	case *Value:
		bp, ok := b.(*Value)
		return ok && a == bp
	case *Chan:
		bp, ok := b.(*Chan)
		return ok && a == bp
	}
	return false
}

type strIter struct {
	s string
	i int
}

func (it *strIter) next(ex *Exec) Tuple {
	if it.i >= len(it.s) {
		return Tuple{false, CInt(0, 64), CInt(0, 32)}
	}
	for j, r := range it.s[it.i:] {
		_ = j
		start := it.i
		it.i += len(string(r))
		if r == 0xFFFD {
			it.i = start + 1
		}
		return Tuple{true, CInt(uint64(start), 64), CInt(uint64(uint32(r)), 32)}
	}
	return Tuple{false, CInt(0, 64), CInt(0, 32)}
}

func (ex *Exec) rangeIter(x Value, t types.Type) iter {
	switch x := x.(type) {
	case *Map:
		if x == nil {
			return &mapIter{m: &Map{}}
		}
		keys, vals := slices.Clone(x.K), slices.Clone(x.V)
		// Go does not specify the iteration order of a map.  When the harness asks
		// for it (zzsym.NondetMapOrder) every order of a map with 2..3 entries is
		// explored, and the reversal and rotations of a longer one.
		if on, _ := ex.side["nondetMapOrder"].(bool); on && len(keys) >= 2 {
			n := len(keys)
			var perms [][]int
			switch n {
			case 2:
				perms = [][]int{{0, 1}, {1, 0}}
			case 3:
				perms = [][]int{{0, 1, 2}, {0, 2, 1}, {1, 0, 2}, {1, 2, 0}, {2, 0, 1}, {2, 1, 0}}
			default:
				id := make([]int, n)
				rev := make([]int, n)
				rot := make([]int, n)
				for i := range id {
					id[i], rev[i], rot[i] = i, n-1-i, (i+1)%n
				}
				perms = [][]int{id, rev, rot}
			}
			p := perms[ex.choose(len(perms))]
			k2, v2 := make([]Value, n), make([]Value, n)
			for i, j := range p {
				k2[i], v2[i] = keys[j], vals[j]
			}
			keys, vals = k2, v2
		}
		return &mapIter{m: x, keys: keys, vals: vals}
	case string:
		return &strIter{s: x}
	case SymStr:
		if x.B != nil {
			if c, ok := concBytes(x.B); ok {
				return &strIter{s: string(c)}
			}
		}
		ex.unsupported("range over symbolic string")
	}
	panic(fmt.Sprintf("cannot range over %T", x))
}

// ---------- slicing ----------

func (ex *Exec) slice(instr *ssa.Slice, x, lo, hi, max Value) Value {
	var Len, Cap int
	switch x := x.(type) {
	case string:
		Len = len(x)
		Cap = Len
	case SymStr:
		if x.B != nil {
			r := ex.slice(instr, Slice(x.B), lo, hi, nil)
			return mkStrBytes(r.(Slice))
		}
		return ex.sliceSymStr(x, lo, hi)
	case Slice:
		Len = len(x)
		Cap = cap(x)
	case *Value:
		if x == nil {
			ex.rtPanic("runtime error: invalid memory address or nil pointer dereference")
		}
		a := (*x).(Array)
		Len = len(a)
		Cap = len(a)
	}
	// evaluate bounds; symbolic bounds are range checked then concretized
	get := func(v Value, def int) (Int, bool) {
		if v == nil {
			return CInt(uint64(def), 64), false
		}
		return v.(Int), true
	}
	l, _ := get(lo, 0)
	h, _ := get(hi, Len)
	m, _ := get(max, Cap)
	if l.T != nil || h.T != nil || m.T != nil {
		// 0 <= l <= h <= m <= Cap (unsigned compare after widening to 64)
		l64, h64, m64 := ex.toW(l, 64, true), ex.toW(h, 64, true), ex.toW(m, 64, true)
		ok := ex.andVal(ex.andVal(
			mkBool(Bin("bvule", SBool, l64.Term(), h64.Term())),
			mkBool(Bin("bvule", SBool, h64.Term(), m64.Term()))),
			mkBool(Bin("bvule", SBool, m64.Term(), BVConst(uint64(Cap), 64))))
		if !ex.branch(ok) {
			ex.rtPanic("runtime error: slice bounds out of range (symbolic)")
		}
		l = CInt(ex.concretize(l64), 64)
		h = CInt(ex.concretize(h64), 64)
		m = CInt(ex.concretize(m64), 64)
	}
	li, hi2, mi := l.S64(), h.S64(), m.S64()
	if widthLess(l) {
		li = int64(l.C)
	}
	if _, isStr := x.(string); isStr {
		mi = int64(Cap)
	}
	if li < 0 || hi2 < li || mi < hi2 || mi > int64(Cap) {
		ex.rtPanic(fmt.Sprintf("runtime error: slice bounds out of range [%d:%d:%d] with capacity %d", li, hi2, mi, Cap))
	}
	switch x := x.(type) {
	case string:
		return x[li:hi2]
	case Slice:
		if x == nil {
			return Slice(nil)
		}
		return x[li:hi2:mi]
	case *Value:
		a := (*x).(Array)
		return Slice(a)[li:hi2:mi]
	}
	panic(fmt.Sprintf("slice: unexpected X type: %T", x))
}

func widthLess(i Int) bool { return false }

func (ex *Exec) sliceSymStr(x SymStr, lo, hi Value) Value {
	n := SeqLen(x.T)
	l := BVConst(0, 64)
	h := n
	if lo != nil {
		l = ex.toW(lo.(Int), 64, true).Term()
	}
	if hi != nil {
		h = ex.toW(hi.(Int), 64, true).Term()
	}
	ok := mkBool(And(Bin("bvule", SBool, l, h), Bin("bvule", SBool, h, n)))
	if !ex.branch(ok) {
		ex.rtPanic("runtime error: slice bounds out of range (symbolic string)")
	}
	return SymStr{T: SeqExtract(x.T, l, Bin("bvsub", SBV(64), h, l))}
}

// toW converts an Int to width w (sign- or zero-extending / truncating).
func (ex *Exec) toW(i Int, w uint8, signed bool) Int {
	if i.W == w {
		return i
	}
	if i.T == nil {
		if i.W < w && signed {
			return CInt(uint64(i.S64()), w)
		}
		return CInt(i.C, w)
	}
	if i.W > w {
		return SInt(Extract(int(w)-1, 0, i.T))
	}
	if signed {
		return SInt(SignExt(int(w-i.W), i.T))
	}
	return SInt(ZeroExt(int(w-i.W), i.T))
}

// ---------- goroutines / channels ----------

func (ex *Exec) goStmt(fr *frame, instr *ssa.Go, fn Value, args []Value) {
	// run synchronously to completion (cooperative, no preemption)
	ex.call(fr, instr.Pos(), fn, args)
}

func (ex *Exec) chanReadyRecv(c *Chan) bool {
	if c == nil {
		return false
	}
	ex.pollChan(c)
	return len(c.Buf) > 0 || c.Closed
}

func (ex *Exec) chanReadySend(c *Chan) bool {
	if c == nil {
		return false
	}
	if c.Closed {
		return true // will panic
	}
	return len(c.Buf) < c.Cap
}

func (ex *Exec) chanSend(c *Chan, v Value) {
	for tries := 0; ; tries++ {
		if c != nil && c.Closed {
			panic(targetPanic{Iface{ex.eng.runtimeErrorString, "send on closed channel"}})
		}
		if ex.chanReadySend(c) {
			c.Buf = append(c.Buf, v)
			return
		}
		if !ex.runIdle(c) {
			ex.end("blocked", "send on full/nil channel "+chanName(c)+" @ "+ex.stack())
		}
	}
}

func chanName(c *Chan) string {
	if c == nil {
		return "nil"
	}
	return c.Name
}

func (ex *Exec) chanRecv(c *Chan, elem types.Type) (Value, bool) {
	for {
		if ex.chanReadyRecv(c) {
			if len(c.Buf) > 0 {
				v := c.Buf[0]
				c.Buf = c.Buf[1:]
				return v, true
			}
			return zero(elem), false
		}
		if !ex.runIdle(c) {
			ex.end("blocked", "receive on empty/nil channel "+chanName(c)+" @ "+ex.stack())
		}
	}
}

// runIdle runs the next registered idle hook (zzsym.OnIdle); returns false if
// there is none left.
func (ex *Exec) runIdle(waiting ...*Chan) bool {
	// a blocked operation that waits on an armed timer lets time pass first
	if ex.side["freezeTimers"] == nil {
		for _, c := range waiting {
			if c != nil && c.Kind == 1 {
				if ts, ok := c.Aux.(*timerState); ok && ts.armed {
					return ex.advanceTime()
				}
			}
		}
	}
	if len(ex.idleHooks) == 0 {
		if ex.side["freezeTimers"] != nil {
			return false
		}
		// the blocked operation does not wait on a timer: only scheduled
		// callbacks (concurrent activity) can still wake it up
		return ex.advanceTime(true)
	}
	h := ex.idleHooks[0]
	ex.idleHooks = ex.idleHooks[1:]
	ex.call(ex.curFrame, token.NoPos, h, nil)
	return true
}

func (ex *Exec) selectStmt(fr *frame, instr *ssa.Select) Value {
	type cs struct {
		c    *Chan
		send Value
		dir  types.ChanDir
	}
	cases := make([]cs, len(instr.States))
	for i, st := range instr.States {
		cases[i].c = fr.get(st.Chan).(*Chan)
		cases[i].dir = st.Dir
		if st.Send != nil {
			cases[i].send = copyVal(fr.get(st.Send))
		}
	}
	chosen := -1
	for {
		if len(ex.timers) > 0 {
			ex.fireDueCallbacks()
		}
		var ready []int
		for i, c := range cases {
			if c.dir == types.RecvOnly {
				if ex.chanReadyRecv(c.c) {
					ready = append(ready, i)
				}
			} else if ex.chanReadySend(c.c) {
				ready = append(ready, i)
			}
		}
		if len(ready) > 0 {
			// every ready case is a possible choice; after selectForkBound
			// nondeterministic choices at one select site on one path the first
			// ready case (source order) is taken: bounds unfair infinite schedules
			if ex.selForks == nil {
				ex.selForks = map[*ssa.Select]int{}
			}
			if len(ready) > 1 && ex.selForks[instr] >= selectForkBound {
				chosen = ready[0]
			} else {
				if len(ready) > 1 {
					ex.selForks[instr]++
				}
				chosen = ready[ex.choose(len(ready))]
			}
			break
		}
		if !instr.Blocking {
			break
		}
		var waiting []*Chan
		for _, c := range cases {
			waiting = append(waiting, c.c)
		}
		if !ex.runIdle(waiting...) {
			ex.end("blocked", "select with no ready case @ "+ex.stack())
		}
	}
	recvOk := false
	var recv Value
	if chosen >= 0 {
		c := cases[chosen]
		if c.dir == types.RecvOnly {
			recv, recvOk = ex.chanRecv(c.c, c.c.elemType(instr.States[chosen]))
		} else {
			ex.chanSend(c.c, c.send)
		}
	}
	r := Tuple{CInt(uint64(int64(chosen)), 64), recvOk}
	for i, st := range instr.States {
		if st.Dir == types.RecvOnly {
			var v Value
			if i == chosen && recvOk {
				v = recv
			} else {
				v = zero(st.Chan.Type().Underlying().(*types.Chan).Elem())
			}
			r = append(r, v)
		}
	}
	return r
}

func (c *Chan) elemType(st *ssa.SelectState) types.Type {
	return st.Chan.Type().Underlying().(*types.Chan).Elem()
}
