package main

import (
	"crypto/sha256"
	"encoding/hex"
	"fmt"
	"go/token"
	"go/types"
	"sort"
	"strconv"
	"strings"

	"golang.org/x/tools/go/ssa"
)

func (e *Engine) lookupExtern(fn *ssa.Function, name string) ExternFn {
	if x, ok := e.externs[name]; ok {
		return x
	}
	if fn.Pkg != nil {
		path := fn.Pkg.Pkg.Path()
		if strings.HasSuffix(path, "/internal/zzsym") {
			if x, ok := e.externs["zzsym."+fn.Name()]; ok {
				return x
			}
			return nil
		}
	}
	pp := funcPkgPath(fn)
	for _, np := range e.noopPkgs {
		if pp == np || strings.HasPrefix(pp, np+"/") {
			return externNoop
		}
	}
	// generic instantiations: match on origin name
	if o := fn.Origin(); o != nil && o != fn {
		if x, ok := e.externs[o.String()]; ok {
			return x
		}
	}
	return nil
}

func funcPkgPath(fn *ssa.Function) string {
	if fn.Pkg != nil {
		return fn.Pkg.Pkg.Path()
	}
	if o := fn.Origin(); o != nil && o.Pkg != nil {
		return o.Pkg.Pkg.Path()
	}
	if fn.Signature.Recv() != nil {
		t := fn.Signature.Recv().Type()
		if p, ok := t.(*types.Pointer); ok {
			t = p.Elem()
		}
		if n, ok := t.(*types.Named); ok && n.Obj().Pkg() != nil {
			return n.Obj().Pkg().Path()
		}
	}
	if fn.Object() != nil && fn.Object().Pkg() != nil {
		return fn.Object().Pkg().Path()
	}
	return ""
}

func externNoop(ex *Exec, caller *frame, fn *ssa.Function, args []Value) Value {
	return zeroResult(fn)
}

// ---------- inputs, assertions ----------

func (ex *Exec) inputName(name string) string {
	k := ex.nameCnt[name]
	ex.nameCnt[name] = k + 1
	if k == 0 {
		return name
	}
	return fmt.Sprintf("%s#%d", name, k)
}

func (ex *Exec) newInput(name string, sort Sort) *Term {
	n := ex.inputName(name)
	t := Var(ex.harness+"."+n, sort)
	ex.inputs = append(ex.inputs, inputVar{n, t})
	return t
}

func argStr(v Value) string {
	s, ok := v.(string)
	if !ok {
		panic("zzsym: name/label argument must be a constant string")
	}
	return s
}

func (ex *Exec) modelOf(extra ...*Term) (SatResult, map[string]string) {
	vals := make([]*Term, len(ex.inputs))
	for i, in := range ex.inputs {
		vals[i] = in.T
	}
	r, out := ex.sol.CheckModel(vals, extra...)
	if r != Sat {
		return r, nil
	}
	m := map[string]string{}
	for i, in := range ex.inputs {
		m[in.Name] = decodeModelValue(out[i], in.T.Sort)
	}
	if ex.thr != nil && len(ex.thr.sched) > 0 {
		m["__schedule"] = ex.schedString()
	}
	return r, m
}

func decodeModelValue(v string, s Sort) string {
	switch s.K {
	case 0:
		return v
	case 1:
		if u, ok := parseBVValue(v); ok {
			return strconv.FormatUint(u, 10)
		}
		return v
	default:
		if b, ok := parseSeqValue(v); ok {
			return "hex:" + hex.EncodeToString(b)
		}
		return v
	}
}

func (ex *Exec) recordViolation(label, msg string, negCond *Term) (found bool) {
	// known-finding regions for this (harness,label)
	var regionTerm *Term
	var knownID string
	for _, kf := range ex.eng.known(ex.harness, label) {
		if kf.MsgContains != "" && !strings.Contains(msg, kf.MsgContains) {
			continue
		}
		var rt *Term
		if kf.Region == "" || kf.Region == "*" {
			rt = TTrue
		} else if t, ok := ex.regions[kf.Region]; ok {
			rt = t
		} else {
			continue
		}
		if regionTerm == nil {
			regionTerm = rt
		} else {
			regionTerm = Or(regionTerm, rt)
		}
		knownID = kf.ID
	}
	var extra []*Term
	if negCond != nil {
		extra = append(extra, negCond)
	}
	st := ""
	if ex.curFrame != nil {
		st = ex.stack()
	}
	if regionTerm != nil {
		// inside region => known finding
		r, m := ex.modelOf(append(extra, regionTerm)...)
		if r == Sat {
			found = true
			ex.viols = append(ex.viols, Violation{Label: label, Harness: ex.harness, Msg: msg, Model: m, Decisions: append([]Dec(nil), ex.decisions[:ex.pos]...), Known: knownID, Stack: st})
		} else if r == Unknown {
			ex.end("unknown", "solver unknown while checking known-finding region for "+label)
		}
		extra = append(extra, Not(regionTerm))
	}
	r, m := ex.modelOf(extra...)
	switch r {
	case Sat:
		found = true
		ex.viols = append(ex.viols, Violation{Label: label, Harness: ex.harness, Msg: msg, Model: m, Decisions: append([]Dec(nil), ex.decisions[:ex.pos]...), Stack: st})
	case Unknown:
		ex.end("unknown", "solver unknown while checking assertion "+label)
	}
	return found
}

func (ex *Exec) finalModel() (map[string]string, []ObsVal) {
	vals := make([]*Term, 0, len(ex.inputs))
	for _, in := range ex.inputs {
		vals = append(vals, in.T)
	}
	nin := len(vals)
	for _, o := range ex.obs {
		vals = append(vals, o.Terms...)
	}
	r, out := ex.sol.CheckModel(vals)
	if r != Sat {
		return nil, nil
	}
	m := map[string]string{}
	for i, in := range ex.inputs {
		m[in.Name] = decodeModelValue(out[i], in.T.Sort)
	}
	if ex.thr != nil && len(ex.thr.sched) > 0 {
		m["__schedule"] = ex.schedString()
	}
	var obs []ObsVal
	k := nin
	for _, o := range ex.obs {
		if len(o.Terms) == 0 {
			obs = append(obs, ObsVal{o.Label, o.Conc})
			continue
		}
		switch o.Kind {
		case "bytes":
			bs := make([]byte, len(o.Terms))
			for i := range o.Terms {
				u, _ := parseBVValue(out[k+i])
				bs[i] = byte(u)
			}
			obs = append(obs, ObsVal{o.Label, "hex:" + hex.EncodeToString(bs)})
		default:
			obs = append(obs, ObsVal{o.Label, decodeModelValue(out[k], o.Terms[0].Sort)})
		}
		k += len(o.Terms)
	}
	return m, obs
}

func (ex *Exec) symBytes(name string, n int) Slice {
	out := make(Slice, n)
	for i := range out {
		out[i] = SInt(ex.newInputRaw(fmt.Sprintf("%s[%d]", name, i), SBV(8)))
	}
	return out
}

// newInputRaw registers an input whose name is already unique.
func (ex *Exec) newInputRaw(name string, sort Sort) *Term {
	t := Var(ex.harness+"."+name, sort)
	if !ex.inputSet[name] {
		ex.inputSet[name] = true
		ex.inputs = append(ex.inputs, inputVar{name, t})
	}
	return t
}

func registerExterns(e *Engine) {
	x := e.externs
	// ----- zzsym intrinsics -----
	intIn := func(w int) ExternFn {
		return func(ex *Exec, caller *frame, fn *ssa.Function, args []Value) Value {
			return SInt(ex.newInput(argStr(args[0]), SBV(w)))
		}
	}
	x["zzsym.U64"] = intIn(64)
	x["zzsym.I64"] = intIn(64)
	x["zzsym.U32"] = intIn(32)
	x["zzsym.U16"] = intIn(16)
	x["zzsym.U8"] = intIn(8)
	x["zzsym.Bool"] = func(ex *Exec, caller *frame, fn *ssa.Function, args []Value) Value {
		return SymBool{ex.newInput(argStr(args[0]), SBool)}
	}
	x["zzsym.Int"] = func(ex *Exec, caller *frame, fn *ssa.Function, args []Value) Value {
		t := ex.newInput(argStr(args[0]), SBV(64))
		lo, hi := args[1].(Int), args[2].(Int)
		ex.assume(mkBool(And(Bin("bvsle", SBool, lo.Term(), t), Bin("bvsle", SBool, t, hi.Term()))))
		return SInt(t)
	}
	x["zzsym.Pick"] = func(ex *Exec, caller *frame, fn *ssa.Function, args []Value) Value {
		// concrete choice in [0,n): forks
		t := ex.newInput(argStr(args[0]), SBV(64))
		n := args[1].(Int)
		ex.assume(mkBool(Bin("bvult", SBool, t, n.Term())))
		return CInt(ex.concretize(SInt(t)), 64)
	}
	x["zzsym.Bytes"] = func(ex *Exec, caller *frame, fn *ssa.Function, args []Value) Value {
		name := ex.inputName(argStr(args[0]))
		maxLen := args[1].(Int)
		lt := ex.newInputRaw(name+".len", SBV(64))
		ex.assume(mkBool(Bin("bvule", SBool, lt, maxLen.Term())))
		n := ex.concretize(SInt(lt))
		return ex.symBytes(name, int(n))
	}
	x["zzsym.BytesN"] = func(ex *Exec, caller *frame, fn *ssa.Function, args []Value) Value {
		name := ex.inputName(argStr(args[0]))
		n := ex.concretize(args[1].(Int))
		return ex.symBytes(name, int(n))
	}
	x["zzsym.Str"] = func(ex *Exec, caller *frame, fn *ssa.Function, args []Value) Value {
		return SymStr{T: ex.newInput(argStr(args[0]), SSeq)}
	}
	x["zzsym.Assume"] = func(ex *Exec, caller *frame, fn *ssa.Function, args []Value) Value {
		ex.assume(args[0])
		return nil
	}
	x["zzsym.Assert"] = func(ex *Exec, caller *frame, fn *ssa.Function, args []Value) Value {
		label := argStr(args[1])
		ex.curFrame = caller
		switch c := args[0].(type) {
		case bool:
			if !c {
				ex.recordViolation(label, "assertion failed", nil)
				ex.end("violated", "assertion failed (concrete): "+label)
			}
		case SymBool:
			if v, ok := ex.known[c.T.S]; ok && v {
				return nil
			}
			if ex.recordViolation(label, "assertion failed", Not(c.T)) {
				// continue under the assumption that it held
				r := ex.sol.Check(c.T)
				if r == Unsat {
					ex.end("violated", "assertion always fails here: "+label)
				}
				if r == Unknown {
					ex.end("unknown", "solver unknown after assertion")
				}
			}
			ex.addPC(c.T)
		}
		return nil
	}
	x["zzsym.StepDeadline"] = func(ex *Exec, caller *frame, fn *ssa.Function, args []Value) Value {
		// bounded liveness: from here the code under test may run at most n more
		// interpreter steps (n == 0 disarms); exceeding it is reported under label
		n := int(args[0].(Int).C)
		if n == 0 {
			ex.deadlineAt = 0
			return nil
		}
		ex.deadlineAt, ex.deadlineLabel = ex.steps+n, argStr(args[1])
		return nil
	}
	x["zzsym.Reach"] = func(ex *Exec, caller *frame, fn *ssa.Function, args []Value) Value {
		ex.reached[argStr(args[0])] = true
		return nil
	}
	x["zzsym.Unsupported"] = func(ex *Exec, caller *frame, fn *ssa.Function, args []Value) Value {
		ex.curFrame = caller
		ex.unsupported("harness: " + argStr(args[0]))
		return nil
	}
	x["zzsym.Region"] = func(ex *Exec, caller *frame, fn *ssa.Function, args []Value) Value {
		ex.regions[argStr(args[0])] = boolTerm(args[1])
		return nil
	}
	x["zzsym.Symbolic"] = func(ex *Exec, caller *frame, fn *ssa.Function, args []Value) Value { return true }
	x["zzsym.OnIdle"] = func(ex *Exec, caller *frame, fn *ssa.Function, args []Value) Value {
		ex.idleHooks = append(ex.idleHooks, args[0])
		return nil
	}
	x["zzsym.ObserveU64"] = func(ex *Exec, caller *frame, fn *ssa.Function, args []Value) Value {
		i := args[1].(Int)
		if i.T == nil {
			ex.obs = append(ex.obs, Obs{Label: argStr(args[0]), Kind: "u64", Conc: strconv.FormatUint(i.C, 10)})
		} else {
			ex.obs = append(ex.obs, Obs{Label: argStr(args[0]), Kind: "u64", Terms: []*Term{i.T}})
		}
		return nil
	}
	x["zzsym.ObserveBool"] = func(ex *Exec, caller *frame, fn *ssa.Function, args []Value) Value {
		if b, ok := args[1].(bool); ok {
			ex.obs = append(ex.obs, Obs{Label: argStr(args[0]), Kind: "bool", Conc: strconv.FormatBool(b)})
		} else {
			ex.obs = append(ex.obs, Obs{Label: argStr(args[0]), Kind: "bool", Terms: []*Term{boolTerm(args[1])}})
		}
		return nil
	}
	x["zzsym.ObserveBytes"] = func(ex *Exec, caller *frame, fn *ssa.Function, args []Value) Value {
		s := args[1].(Slice)
		if bs, ok := concBytes(s); ok {
			ex.obs = append(ex.obs, Obs{Label: argStr(args[0]), Kind: "bytes", Conc: "hex:" + hex.EncodeToString(bs)})
			return nil
		}
		ts := make([]*Term, len(s))
		for i, b := range s {
			ts[i] = b.(Int).Term()
		}
		ex.obs = append(ex.obs, Obs{Label: argStr(args[0]), Kind: "bytes", Terms: ts})
		return nil
	}
	x["zzsym.ObserveStr"] = func(ex *Exec, caller *frame, fn *ssa.Function, args []Value) Value {
		if s, ok := args[1].(string); ok {
			ex.obs = append(ex.obs, Obs{Label: argStr(args[0]), Kind: "str", Conc: "hex:" + hex.EncodeToString([]byte(s))})
		} else {
			ex.obs = append(ex.obs, Obs{Label: argStr(args[0]), Kind: "str", Terms: []*Term{strTerm(args[1])}})
		}
		return nil
	}

	registerStdlib(e)
}

// ---------- helpers for summaries ----------

func (ex *Exec) ufAxiomInjective(family string, fname string, arg, res *Term) {
	// pairwise injectivity over all applications seen on this path
	for _, prev := range ex.ufApps[family] {
		if prev.arg.S == arg.S {
			continue
		}
		ex.addPC(Implies(Eq(prev.res, res), Eq(prev.arg, arg)))
	}
	ex.ufApps[family] = append(ex.ufApps[family], ufApp{arg, res})
}

// sha256 summary: concrete input -> real digest (also recorded as a fact about
// the UF once a symbolic application exists); symbolic input -> one
// uninterpreted function per input length over bit-vectors, pairwise
// injective (collision-freeness assumption), so everything stays in QF_UFBV.
// parseExtract recognises "((_ extract H L) BASE)".
func parseExtract(t *Term) (hi, lo int, base string, ok bool) {
	const pre = "((_ extract "
	if !strings.HasPrefix(t.S, pre) {
		return
	}
	rest := t.S[len(pre):]
	i := strings.IndexByte(rest, ')')
	if i < 0 {
		return
	}
	if _, err := fmt.Sscanf(rest[:i], "%d %d", &hi, &lo); err != nil {
		return
	}
	base = rest[i+2 : len(rest)-1]
	return hi, lo, base, true
}

// mergeBytes turns a byte list into bit-vector pieces, fusing runs of
// adjacent extracts of one term and runs of literals.
func mergeBytes(in []Value) []*Term {
	var parts []*Term
	type run struct {
		hi, lo int
		base   string
	}
	var cur *run
	var lit []byte
	flushRun := func() {
		if cur != nil {
			parts = append(parts, &Term{fmt.Sprintf("((_ extract %d %d) %s)", cur.hi, cur.lo, cur.base), SBV(cur.hi - cur.lo + 1)})
			cur = nil
		}
	}
	flushLit := func() {
		if len(lit) > 0 {
			parts = append(parts, &Term{"#x" + hex.EncodeToString(lit), SBV(8 * len(lit))})
			lit = nil
		}
	}
	for _, b := range in {
		bi := b.(Int)
		if bi.T == nil {
			flushRun()
			lit = append(lit, byte(bi.C))
			continue
		}
		flushLit()
		if hi, lo, base, ok := parseExtract(bi.T); ok {
			if cur != nil && cur.base == base && cur.lo == hi+1 {
				cur.lo = lo
				continue
			}
			flushRun()
			cur = &run{hi, lo, base}
			continue
		}
		flushRun()
		parts = append(parts, bi.T)
	}
	flushRun()
	flushLit()
	// an extract covering a whole declared term is the term itself: we cannot
	// know the base width from the string, so leave it to the solver.
	return parts
}

func bvOfBytes(in []Value) *Term {
	if len(in) == 1 {
		return in[0].(Int).Term()
	}
	parts := mergeBytes(in)
	for len(parts) > 1 {
		var next []*Term
		for i := 0; i < len(parts); i += 8 {
			j := min(i+8, len(parts))
			if j-i == 1 {
				next = append(next, parts[i])
				continue
			}
			var sb strings.Builder
			w := 0
			sb.WriteString("(concat")
			for _, p := range parts[i:j] {
				sb.WriteByte(' ')
				sb.WriteString(p.S)
				w += p.Sort.W
			}
			sb.WriteByte(')')
			next = append(next, mk(sb.String(), SBV(w)))
		}
		parts = next
	}
	return parts[0]
}

type shaApp struct {
	n   int
	arg *Term
	res *Term
	in  []Value
}

func (ex *Exec) shaRecord(n int, arg, res *Term, in []Value) {
	apps, _ := ex.side["shaApps"].([]shaApp)
	for _, p := range apps {
		if p.n == n && p.arg.S == arg.S {
			return
		}
	}
	// digests of inputs of different lengths differ: one tag per application
	// (linear) instead of pairwise disequalities
	tag := UF("shalen", []Sort{SBV(256)}, SBV(32))
	ex.addPC(Eq(App(tag, SBV(32), res), BVConst(uint64(n), 32)))
	for _, p := range apps {
		if p.n != n {
			continue
		} else {
			// collision freeness; the argument equality is built piecewise so
			// that shared prefixes/suffixes are not bit-blasted again
			ex.addPC(Implies(Eq(p.res, res), ex.bytesEqTerm(p.in, in)))
		}
	}
	cp := make([]Value, len(in))
	copy(cp, in)
	ex.side["shaApps"] = append(apps, shaApp{n, arg, res, cp})
}

// bytesEqTerm: equality of two equally long explicit byte strings as a
// conjunction over the maximal runs of positions that are not syntactically
// identical; literal mismatches make it false at once.
func (ex *Exec) bytesEqTerm(a, b []Value) *Term {
	acc := TTrue
	i := 0
	for i < len(a) {
		x, y := a[i].(Int), b[i].(Int)
		if (x.T == nil && y.T == nil && x.C == y.C) || (x.T != nil && y.T != nil && x.T.S == y.T.S) {
			i++
			continue
		}
		if x.T == nil && y.T == nil {
			return TFalse
		}
		j := i
		for j < len(a) {
			x, y := a[j].(Int), b[j].(Int)
			if x.T == nil && y.T == nil {
				if x.C != y.C {
					return TFalse
				}
				break
			}
			if x.T != nil && y.T != nil && x.T.S == y.T.S {
				break
			}
			j++
		}
		acc = And(acc, Eq(bvOfBytes(a[i:j]), bvOfBytes(b[i:j])))
		i = j
	}
	return acc
}

func (ex *Exec) shaTerm(n int, arg *Term) *Term {
	if n == 0 {
		return &Term{"#xe3b0c44298fc1c149afbf4c8996fb92427ae41e4649b934ca495991b7852b855", SBV(256)}
	}
	f := UF(fmt.Sprintf("sha256_%d", n), []Sort{SBV(8 * n)}, SBV(256))
	return App(f, SBV(256), arg)
}

func (ex *Exec) sha256Of(in []Value) []Value {
	emitConc := func(bs []byte) {
		if len(bs) == 0 || len(bs) > 4096 {
			// empty and very long concrete inputs: only the length tag of the
			// (literal) digest is recorded, which separates it from every
			// digest of an input of another length
			d := sha256.Sum256(bs)
			lit := &Term{"#x" + hex.EncodeToString(d[:]), SBV(256)}
			tag := UF("shalen", []Sort{SBV(256)}, SBV(32))
			ex.addPC(Eq(App(tag, SBV(32), lit), BVConst(uint64(len(bs)), 32)))
			return
		}
		d := sha256.Sum256(bs)
		arg := &Term{"#x" + hex.EncodeToString(bs), SBV(8 * len(bs))}
		res := ex.shaTerm(len(bs), arg)
		lit := &Term{"#x" + hex.EncodeToString(d[:]), SBV(256)}
		ex.addPC(Eq(res, lit))
		ex.shaRecord(len(bs), arg, res, bytesSlice(bs))
	}
	if bs, ok := concBytes(in); ok {
		d := sha256.Sum256(bs)
		if ex.side["shaSym"] != nil {
			emitConc(bs)
		} else {
			pend, _ := ex.side["shaConc"].([][]byte)
			if len(pend) < 64 {
				ex.side["shaConc"] = append(pend, bs)
			}
		}
		return bytesSlice(d[:])
	}
	if ex.side["shaSym"] == nil {
		ex.side["shaSym"] = true
		pend, _ := ex.side["shaConc"].([][]byte)
		for _, bs := range pend {
			emitConc(bs)
		}
	}
	arg := bvOfBytes(in)
	res := ex.shaTerm(len(in), arg)
	ex.shaRecord(len(in), arg, res, in)
	out := make([]Value, 32)
	for i := 0; i < 32; i++ {
		hi := 255 - 8*i
		out[i] = SInt(Extract(hi, hi-7, res))
	}
	return out
}

// string order: uninterpreted strict total order on byte sequences.
func (ex *Exec) strOrder(op token.Token, a, b *Term) Value {
	f := UF("strlt", []Sort{SSeq, SSeq}, SBool)
	lt := func(x, y *Term) *Term { return App(f, SBool, x, y) }
	terms, _ := ex.side["strord"].([]*Term)
	add := func(t *Term) {
		for _, o := range terms {
			if o.S == t.S {
				return
			}
		}
		for _, o := range terms {
			// trichotomy
			ex.addPC(Or(Or(lt(o, t), lt(t, o)), Eq(o, t)))
			ex.addPC(Not(And(lt(o, t), lt(t, o))))
			ex.addPC(Implies(Eq(o, t), And(Not(lt(o, t)), Not(lt(t, o)))))
			for _, p := range terms {
				if p.S == o.S {
					continue
				}
				ex.addPC(Implies(And(lt(o, p), lt(p, t)), lt(o, t)))
				ex.addPC(Implies(And(lt(o, t), lt(t, p)), lt(o, p)))
				ex.addPC(Implies(And(lt(t, o), lt(o, p)), lt(t, p)))
				ex.addPC(Implies(And(lt(p, o), lt(o, t)), lt(p, t)))
				ex.addPC(Implies(And(lt(p, t), lt(t, o)), lt(p, o)))
				ex.addPC(Implies(And(lt(t, p), lt(p, o)), lt(t, o)))
			}
		}
		ex.addPC(Not(lt(t, t)))
		terms = append(terms, t)
	}
	add(a)
	add(b)
	ex.side["strord"] = terms
	switch op {
	case token.LSS:
		return mkBool(lt(a, b))
	case token.GTR:
		return mkBool(lt(b, a))
	case token.LEQ:
		return mkBool(Not(lt(b, a)))
	default:
		return mkBool(Not(lt(a, b)))
	}
}

func sortedKeys[M ~map[string]V, V any](m M) []string {
	ks := make([]string, 0, len(m))
	for k := range m {
		ks = append(ks, k)
	}
	sort.Strings(ks)
	return ks
}

func (ex *Exec) pollChan(c *Chan) {
	if c.Kind != 0 {
		ex.pollTimerChan(c)
	}
}
