package main

// encoding/gob summary for the cache files (pkg/cache SaveToDisk/LoadFromDisk).
// gob is reflection driven and is not executed.  Encoder.Encode(v) on a file
// stores a snapshot of v as the file's contents; Decoder.Decode(&x) on a file
// restores it the way a gob round trip does: a deep copy in which
//   - unexported struct fields (of types without their own binary marshaller)
//     come back zero,
//   - empty slices come back nil,
//   - a pointer field whose target is (concretely) the zero value comes back nil
//     (gob omits zero-valued fields and flattens pointers); map elements and the
//     top-level value are always transmitted.
// Files are *os.File handles of the single-directory file model.

import (
	"go/types"

	"golang.org/x/tools/go/ssa"
)

type fileHandle struct{ path string }
type gobCoder struct{ path string }
type gobBlob struct {
	t types.Type
	v Value
}

func hasBinaryMarshaller(t types.Type) bool {
	for _, tt := range []types.Type{t, types.NewPointer(t)} {
		ms := types.NewMethodSet(tt)
		for i := 0; i < ms.Len(); i++ {
			switch ms.At(i).Obj().Name() {
			case "GobEncode", "MarshalBinary":
				return true
			}
		}
	}
	return false
}

func isConcZero(v Value) bool {
	switch v := v.(type) {
	case nil:
		return true
	case Int:
		return v.T == nil && v.C == 0
	case bool:
		return !v
	case string:
		return v == ""
	case Struct:
		for _, f := range v {
			if !isConcZero(f) {
				return false
			}
		}
		return true
	case Array:
		for _, f := range v {
			if !isConcZero(f) {
				return false
			}
		}
		return true
	case Slice:
		return len(v) == 0
	case *Value:
		return v == nil
	case *Map:
		return v == nil || len(v.K) == 0
	case Iface:
		return v.T == nil
	}
	return false
}

// gobCopy returns what decoding the encoding of v (static type t) yields.
func gobCopy(v Value, t types.Type, top bool) Value {
	if t != nil && !top {
		if _, isNamed := t.(*types.Named); isNamed && hasBinaryMarshaller(t) {
			return deepCopy(v)
		}
	}
	var u types.Type
	if t != nil {
		u = t.Underlying()
	}
	switch v := v.(type) {
	case Struct:
		st, _ := u.(*types.Struct)
		c := make(Struct, len(v))
		for i, f := range v {
			if st != nil && i < st.NumFields() {
				fld := st.Field(i)
				if !fld.Exported() {
					c[i] = zero(fld.Type())
					continue
				}
				if p, isPtr := f.(*Value); isPtr && p != nil && isConcZero(*p) {
					if _, ptrT := fld.Type().Underlying().(*types.Pointer); ptrT {
						c[i] = (*Value)(nil)
						continue
					}
				}
				c[i] = gobCopy(f, fld.Type(), false)
			} else {
				c[i] = deepCopy(f)
			}
		}
		return c
	case Array:
		var et types.Type
		if at, ok := u.(*types.Array); ok {
			et = at.Elem()
		}
		c := make(Array, len(v))
		for i, f := range v {
			c[i] = gobCopy(f, et, false)
		}
		return c
	case Slice:
		if len(v) == 0 {
			return Slice(nil)
		}
		var et types.Type
		if st, ok := u.(*types.Slice); ok {
			et = st.Elem()
		}
		c := make(Slice, len(v))
		for i, f := range v {
			c[i] = gobCopy(f, et, false)
		}
		return c
	case Iface:
		if v.T == nil {
			return v
		}
		return Iface{v.T, gobCopy(v.V, v.T, false)}
	case *Value:
		if v == nil {
			return v
		}
		var et types.Type
		if pt, ok := u.(*types.Pointer); ok {
			et = pt.Elem()
		}
		var cell Value = gobCopy(*v, et, false)
		return &cell
	case *Map:
		if v == nil {
			return v
		}
		var kt, et types.Type
		if mt, ok := u.(*types.Map); ok {
			kt, et = mt.Key(), mt.Elem()
		}
		c := &Map{KT: v.KT}
		for i := range v.K {
			c.K = append(c.K, gobCopy(v.K[i], kt, false))
			c.V = append(c.V, gobCopy(v.V[i], et, false))
		}
		return c
	}
	return v
}

func registerGob(e *Engine) {
	x := e.externs
	blobs := func(ex *Exec) map[string]gobBlob {
		m, _ := ex.side["gobFiles"].(map[string]gobBlob)
		if m == nil {
			m = map[string]gobBlob{}
			ex.side["gobFiles"] = m
		}
		return m
	}
	handle := func(ex *Exec, v Value) (string, bool) {
		if it, ok := v.(Iface); ok {
			v = it.V
		}
		p, ok := v.(*Value)
		if !ok || p == nil {
			return "", false
		}
		switch h := ex.side[p].(type) {
		case fileHandle:
			return h.path, true
		case gobCoder:
			return h.path, true
		}
		return "", false
	}
	x["os.Create"] = func(ex *Exec, c *frame, f *ssa.Function, a []Value) Value {
		p, ok := a[0].(string)
		if !ok {
			ex.unsupported("os.Create with symbolic path")
		}
		delete(blobs(ex), p) // truncated
		files, _ := ex.side["files"].(map[string]Slice)
		if files == nil {
			files = map[string]Slice{}
			ex.side["files"] = files
		}
		files[p] = Slice{}
		cell := new(Value)
		ex.side[cell] = fileHandle{p}
		return Tuple{cell, Iface{}}
	}
	x["os.Open"] = func(ex *Exec, c *frame, f *ssa.Function, a []Value) Value {
		p, ok := a[0].(string)
		files, _ := ex.side["files"].(map[string]Slice)
		if _, has := files[p]; !ok || !has {
			er := ex.newError("open: no such file or directory (gosx file model)")
			ex.side["notexist"] = er.(Iface).V
			return Tuple{(*Value)(nil), er}
		}
		cell := new(Value)
		ex.side[cell] = fileHandle{p}
		return Tuple{cell, Iface{}}
	}
	x["(*os.File).Close"] = func(ex *Exec, c *frame, f *ssa.Function, a []Value) Value { return Iface{} }
	x["(*os.File).Sync"] = func(ex *Exec, c *frame, f *ssa.Function, a []Value) Value { return Iface{} }
	coder := func(ex *Exec, c *frame, f *ssa.Function, a []Value) Value {
		p, ok := handle(ex, a[0])
		if !ok {
			ex.unsupported("encoding/gob on something that is not a file of the file model")
		}
		cell := new(Value)
		ex.side[cell] = gobCoder{p}
		return cell
	}
	x["encoding/gob.NewEncoder"] = coder
	x["encoding/gob.NewDecoder"] = coder
	x["(*encoding/gob.Encoder).Encode"] = func(ex *Exec, c *frame, f *ssa.Function, a []Value) Value {
		p, ok := handle(ex, a[0])
		v := a[1].(Iface)
		if !ok || v.T == nil {
			return ex.newError("gob: cannot encode (model)")
		}
		blobs(ex)[p] = gobBlob{v.T, deepCopy(v.V)}
		return Iface{}
	}
	x["(*encoding/gob.Decoder).Decode"] = func(ex *Exec, c *frame, f *ssa.Function, a []Value) Value {
		p, ok := handle(ex, a[0])
		target := a[1].(Iface)
		pt, isPtr := target.T.Underlying().(*types.Pointer)
		tp, _ := target.V.(*Value)
		if !ok || !isPtr || tp == nil {
			return ex.newError("gob: attempt to decode into a non-pointer (model)")
		}
		b, has := blobs(ex)[p]
		if !has {
			return ex.newError("EOF")
		}
		if !types.Identical(b.t, pt.Elem()) {
			return ex.newError("gob: type mismatch (model)")
		}
		store(tp, gobCopy(b.v, b.t, true))
		return Iface{}
	}
}
