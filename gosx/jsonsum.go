package main

// encoding/json summary for the record types the repo persists.  Marshal
// returns an opaque token (concrete marker bytes) that stands for a deep
// snapshot of the value; Unmarshal of a token restores a deep copy into the
// target, i.e. the stated contract Unmarshal(Marshal(v)) = v.  Real JSON text
// (as produced by fmt.Sprintf("%d")) is decoded natively for integer targets.
// encoding/json itself is reflection driven and is not executed.

import (
	"encoding/json"
	"fmt"
	"go/types"
	"strings"

	"golang.org/x/tools/go/ssa"
)

type jsonBlob struct {
	t types.Type
	v Value
}

// deepCopy copies v including the backing arrays of slices (a JSON round trip
// never aliases the original).
func deepCopy(v Value) Value {
	switch v := v.(type) {
	case Struct:
		c := make(Struct, len(v))
		for i, f := range v {
			c[i] = deepCopy(f)
		}
		return c
	case Array:
		c := make(Array, len(v))
		for i, f := range v {
			c[i] = deepCopy(f)
		}
		return c
	case Slice:
		if v == nil {
			return Slice(nil)
		}
		c := make(Slice, len(v))
		for i, f := range v {
			c[i] = deepCopy(f)
		}
		return c
	case Iface:
		return Iface{v.T, deepCopy(v.V)}
	case *Value:
		if v == nil {
			return v
		}
		var cell Value = deepCopy(*v)
		return &cell
	case *Map:
		if v == nil {
			return v
		}
		c := &Map{KT: v.KT}
		for i := range v.K {
			c.K = append(c.K, deepCopy(v.K[i]))
			c.V = append(c.V, deepCopy(v.V[i]))
		}
		return c
	}
	return v
}

func registerJSON(e *Engine) {
	x := e.externs
	const marker = "\x00gosx-json#"
	x["encoding/json.Marshal"] = func(ex *Exec, c *frame, f *ssa.Function, a []Value) Value {
		v := a[0].(Iface)
		if v.T == nil {
			return Tuple{bytesSlice([]byte("null")), Iface{}}
		}
		// plain integers and strings: real text
		switch x := v.V.(type) {
		case Int:
			if x.T == nil {
				_, signed, _ := intWidth(v.T)
				if signed {
					return Tuple{bytesSlice([]byte(fmt.Sprint(x.S64()))), Iface{}}
				}
				return Tuple{bytesSlice([]byte(fmt.Sprint(x.C))), Iface{}}
			}
		case string:
			b, _ := json.Marshal(x)
			return Tuple{bytesSlice(b), Iface{}}
		}
		blobs, _ := ex.side["jsonBlobs"].([]jsonBlob)
		id := len(blobs)
		ex.side["jsonBlobs"] = append(blobs, jsonBlob{v.T, deepCopy(v.V)})
		return Tuple{bytesSlice([]byte(fmt.Sprintf("%s%d", marker, id))), Iface{}}
	}
	x["encoding/json.Unmarshal"] = func(ex *Exec, c *frame, f *ssa.Function, a []Value) Value {
		data := a[0].(Slice)
		target := a[1].(Iface)
		bs, ok := concBytes(data)
		if !ok {
			ex.unsupported("json.Unmarshal of symbolic bytes")
		}
		pt, isPtr := target.T.Underlying().(*types.Pointer)
		tp, _ := target.V.(*Value)
		if !isPtr || tp == nil {
			return ex.newError("json: Unmarshal(non-pointer or nil)")
		}
		if rest, isTok := strings.CutPrefix(string(bs), marker); isTok {
			var id int
			fmt.Sscanf(rest, "%d", &id)
			blobs, _ := ex.side["jsonBlobs"].([]jsonBlob)
			if id >= len(blobs) {
				return ex.newError("json: unknown token")
			}
			if !types.Identical(blobs[id].t.Underlying(), pt.Elem().Underlying()) {
				return ex.newError("json: cannot unmarshal into a value of a different type (model)")
			}
			store(tp, deepCopy(blobs[id].v))
			return Iface{}
		}
		// real JSON text: integers only
		if w, signed, isInt := intWidth(pt.Elem()); isInt {
			if signed {
				var n int64
				if err := json.Unmarshal(bs, &n); err != nil {
					return ex.newError(err.Error())
				}
				*tp = CInt(uint64(n), w)
			} else {
				var n uint64
				if err := json.Unmarshal(bs, &n); err != nil {
					return ex.newError(err.Error())
				}
				*tp = CInt(n, w)
			}
			return Iface{}
		}
		if len(bs) == 0 {
			return ex.newError("unexpected end of JSON input")
		}
		ex.unsupported("json.Unmarshal of real JSON text into " + pt.Elem().String())
		return nil
	}
}
