package main

import (
	"encoding/json"
	"flag"
	"fmt"
	"go/ast"
	"go/parser"
	"go/token"
	"os"
	"path/filepath"
	"runtime"
	"sort"
	"strconv"
	"strings"
	"time"
)

type KnownFinding struct {
	Property    string `json:"property"`
	ID          string `json:"id"`
	Harness     string `json:"harness"`
	Label       string `json:"label"`
	Region      string `json:"region"`
	MsgContains string `json:"msg_contains,omitempty"`
	Status      string `json:"status"` // open | fixed
	What        string `json:"what"`
	Commit      string `json:"commit,omitempty"`
}

var knownFindings []KnownFinding

func (e *Engine) known(harness, label string) []KnownFinding {
	var out []KnownFinding
	for _, k := range knownFindings {
		if k.Status == "open" && k.Harness == harness && k.Label == label {
			out = append(out, k)
		}
	}
	return out
}

type multiFlag []string

func (m *multiFlag) String() string     { return strings.Join(*m, ",") }
func (m *multiFlag) Set(s string) error { *m = append(*m, s); return nil }

func main() {
	var (
		dir         = flag.String("dir", "/repo", "module directory to load")
		harnessDirs multiFlag
		zzsymDir    = flag.String("zzsym", "/verif/harness/_zzsym", "directory with internal/zzsym")
		prefix      = flag.String("prefix", "ZZ_", "harness function prefix")
		only        = flag.String("only", "", "run only this harness function")
		property    = flag.String("property", "", "property id")
		tier        = flag.String("tier", "quick", "quick|thorough")
		evidence    = flag.String("evidence", "", "evidence file to write")
		workers     = flag.Int("workers", runtime.NumCPU(), "parallel workers")
		maxSteps    = flag.Int("max-steps", 400000, "instruction budget per path")
		maxPaths    = flag.Int("max-paths", 200000, "path budget per harness")
		timeoutMs   = flag.Int("timeout-ms", 20000, "solver timeout per query")
		solver      = flag.String("solver", "z3", "z3|z3-new|cvc5")
		trace       = flag.Bool("trace", false, "trace instructions")
		knownFile   = flag.String("known", "/verif/known_findings.json", "known findings file")
		replayDir   = flag.String("replays", "/verif/replays", "where to store counterexample models")
		noReplay    = flag.Bool("no-replay", false, "skip native replay (debugging only; never exit 0/1 on violations)")
		witnesses   = flag.Int("witnesses", 6, "completed paths per harness to validate natively")
		initAllow   multiFlag
		noop        multiFlag
		pkgs        multiFlag
	)
	flag.Var(&harnessDirs, "harness", "directory with harness files laid out relative to the module root (repeatable)")
	flag.Var(&initAllow, "init", "extra package path prefix whose init may run")
	flag.Var(&noop, "noop", "package path prefix whose functions are no-ops")
	flag.Var(&pkgs, "pkg", "package pattern(s) to load (default: packages containing harness files)")
	flag.Parse()
	t0 := time.Now()
	if len(harnessDirs) == 0 || *property == "" {
		fmt.Fprintln(os.Stderr, "usage: gosx -property Cxx -harness DIR [-dir MODULE]")
		os.Exit(2)
	}
	if b, err := os.ReadFile(*knownFile); err == nil {
		if err := json.Unmarshal(b, &knownFindings); err != nil {
			fmt.Fprintln(os.Stderr, "bad known findings file:", err)
			os.Exit(2)
		}
	}
	ov1, real1, err := overlayFromDir(*zzsymDir, *dir)
	if err != nil {
		fatal(err)
	}
	ov2, real2 := map[string][]byte{}, map[string]string{}
	for _, hd := range harnessDirs {
		o, r, err := overlayFromDir(hd, *dir)
		if err != nil {
			fatal(err)
		}
		for k, v := range o {
			ov2[k] = v
			real2[k] = r[k]
		}
	}
	overlay := map[string][]byte{}
	realFiles := map[string]string{}
	for k, v := range ov1 {
		overlay[k] = v
		realFiles[k] = real1[k]
	}
	pkgSet := map[string]bool{}
	for k, v := range ov2 {
		overlay[k] = v
		realFiles[k] = real2[k]
		rel, _ := filepath.Rel(*dir, filepath.Dir(k))
		if !strings.Contains(rel, "internal/zzsym") {
			if rel == "." {
				pkgSet["."] = true
			} else {
				pkgSet["./"+rel] = true
			}
		}
	}
	if len(pkgs) == 0 {
		for p := range pkgSet {
			pkgs = append(pkgs, p)
		}
		sort.Strings(pkgs)
	}
	modPath := modulePath(*dir)
	cfg := Config{Dir: *dir, Patterns: pkgs, Overlay: overlay, MaxSteps: *maxSteps, TimeoutMs: *timeoutMs,
		Workers: *workers, Solver: *solver, Trace: *trace, MaxPaths: *maxPaths, BuildFlags: []string{"-tags=zzsym_engine"}}
	eng, err := LoadEngine(cfg)
	if err != nil {
		fatal(err)
	}
	eng.modulePath = modPath
	eng.initAllow = append([]string{"github.com/evstack/ev-node", "context", "io", "io/fs", "github.com/ipfs/go-datastore", "github.com/libp2p/go-libp2p/core/crypto", "unicode/utf8", "strconv", "math/bits", "encoding/binary", "sort", "bytes", "strings"}, initAllow...)
	eng.initDeny = []string{"/types/pb/", "/crypto/pb", "/pkg/p2p", "/pkg/rpc", "/pkg/config", "/pkg/cmd"}
	eng.noopPkgs = append([]string{"go.uber.org/zap", "github.com/ipfs/go-log/v2", "log", "log/slog", "github.com/prometheus/client_golang"}, noop...)

	var names []string
	if *only != "" {
		names = []string{*only}
	} else {
		names = eng.ListHarnesses(*prefix)
	}
	if len(names) == 0 {
		fatal(fmt.Errorf("no harness functions with prefix %s", *prefix))
	}
	expectedReach := reachLabels(real2)

	rep := &Report{Property: *property, Tier: *tier}
	exit := 0
	for _, name := range names {
		hr, err := eng.Explore(name)
		if err != nil {
			fatal(err)
		}
		rep.Harnesses = append(rep.Harnesses, hr)
		fmt.Printf("harness %-40s paths=%d completed=%d statuses=%v queries=%d solver=%.1fs wall=%.1fs\n", name, hr.Paths, hr.Completed, hr.Statuses, hr.Queries, hr.SolverTime.Seconds(), hr.Wall.Seconds())
		for _, lbl := range expectedReach[name] {
			if hr.Reached[lbl] == 0 {
				hr.Incon = append(hr.Incon, "vacuity: reach label never reached: "+lbl)
			}
		}
		if hr.Completed == 0 {
			hr.Incon = append(hr.Incon, "vacuity: no completed path")
		}
	}

	// ---- violations: replay natively ----
	rp := &Replayer{Dir: *dir, Real: realFiles, ModPath: modPath, Pkgs: pkgs, Names: names}
	type vkey struct{ h, l, k string }
	seen := map[vkey]int{}
	var newViols, knownHits []Violation
	for _, hr := range rep.Harnesses {
		for _, v := range hr.Viols {
			k := vkey{v.Harness, v.Label, v.Known}
			if v.Label == "panic" {
				k.l = "panic:" + trunc(v.Msg, 80)
			}
			lim := 6
			if v.Known != "" {
				lim = 1
			}
			if seen[k] >= lim {
				continue
			}
			seen[k]++
			if v.Known != "" {
				knownHits = append(knownHits, v)
			} else {
				newViols = append(newViols, v)
			}
		}
	}
	for _, v := range knownHits {
		what := v.Label
		for _, k := range knownFindings {
			if k.ID == v.Known {
				what = k.What
			}
		}
		fmt.Printf("KNOWN-FINDING: property=%s %s [%s harness=%s label=%s]\n", *property, what, v.Known, v.Harness, v.Label)
		rep.KnownHits = append(rep.KnownHits, v.Known)
	}
	confirmed := 0
	if len(newViols) > 0 {
		os.MkdirAll(filepath.Join(*replayDir, *property), 0755)
		var cases []ReplayCase
		for i, v := range newViols {
			cases = append(cases, ReplayCase{ID: i, Harness: v.Harness, Model: v.Model})
		}
		var results []ReplayResult
		if !*noReplay {
			results, err = rp.Run(cases)
			if err != nil {
				fmt.Fprintln(os.Stderr, "replay failed:", err)
			}
		}
		type grp struct{ h, l string }
		confirmedGrp := map[grp]bool{}
		unconf := map[grp]string{}
		var order []grp
		for i, v := range newViols {
			g := grp{v.Harness, v.Label}
			if v.Label == "panic" {
				g.l = "panic:" + trunc(v.Msg, 80)
			}
			if _, seenG := unconf[g]; !seenG && !confirmedGrp[g] {
				order = append(order, g)
			}
			path := filepath.Join(*replayDir, *property, fmt.Sprintf("%s.%s.%d.json", v.Harness, sanitize(v.Label), i))
			b, _ := json.MarshalIndent(map[string]interface{}{"property": *property, "harness": v.Harness, "label": v.Label, "msg": v.Msg, "model": v.Model, "stack": v.Stack}, "", " ")
			os.WriteFile(path, b, 0644)
			ok := false
			detail := "not replayed"
			if i < len(results) {
				ok, detail = results[i].Confirms(v)
			}
			if ok {
				if confirmedGrp[g] {
					continue // one report per assertion
				}
				confirmedGrp[g] = true
				delete(unconf, g)
				confirmed++
				fmt.Printf("VIOLATION property=%s replay=%s\n", *property, path)
				fmt.Printf("  harness=%s label=%s msg=%s\n  at %s\n  model=%s\n  native: %s\n", v.Harness, v.Label, trunc(v.Msg, 300), v.Stack, compactModel(v.Model), detail)
				rep.Violations = append(rep.Violations, map[string]interface{}{"harness": v.Harness, "label": v.Label, "msg": v.Msg, "replay": path, "native": detail})
			} else if !confirmedGrp[g] {
				if _, had := unconf[g]; !had {
					unconf[g] = fmt.Sprintf("%s (model %s; at %s; %s)", detail, path, v.Stack, compactModel(v.Model))
				}
			}
		}
		for _, g := range order {
			if d, isU := unconf[g]; isU && !confirmedGrp[g] {
				fmt.Printf("UNCONFIRMED counterexample harness=%s label=%s: %s\n", g.h, g.l, trunc(d, 900))
				rep.Inconclusive = append(rep.Inconclusive, fmt.Sprintf("unconfirmed counterexample %s/%s: %s", g.h, g.l, trunc(d, 300)))
			}
		}
	}
	// ---- witness validation ----
	if !*noReplay && *witnesses > 0 {
		var cases []ReplayCase
		var expect [][]ObsVal
		for _, hr := range rep.Harnesses {
			n := 0
			for _, s := range hr.Samples {
				if s.Status != "ok" || s.Model == nil || n >= *witnesses {
					continue
				}
				n++
				cases = append(cases, ReplayCase{ID: len(cases), Harness: hr.Name, Model: s.Model})
				expect = append(expect, s.Obs)
			}
		}
		if len(cases) > 0 {
			results, err := rp.Run(cases)
			if err != nil {
				rep.Inconclusive = append(rep.Inconclusive, "witness replay failed: "+err.Error())
			} else {
				for i, r := range results {
					if msg := r.MatchesWitness(expect[i]); msg != "" {
						rep.Inconclusive = append(rep.Inconclusive, fmt.Sprintf("witness mismatch (engine vs native) harness=%s: %s model=%s", cases[i].Harness, msg, compactModel(cases[i].Model)))
					} else {
						rep.WitnessOK++
					}
				}
			}
		}
	}
	for _, hr := range rep.Harnesses {
		for _, m := range hr.Incon {
			rep.Inconclusive = append(rep.Inconclusive, hr.Name+": "+m)
		}
	}
	rep.Wall = time.Since(t0)
	rep.LoadTime = eng.loadTime
	if *evidence != "" {
		if err := rep.WriteEvidence(*evidence, eng); err != nil {
			fatal(err)
		}
	}
	for _, m := range rep.Inconclusive {
		fmt.Printf("INCONCLUSIVE %s\n", trunc(m, 1200))
	}
	switch {
	case confirmed > 0:
		exit = 1
	case len(rep.Inconclusive) > 0:
		exit = 2
	}
	fmt.Printf("property %s tier=%s: harnesses=%d paths=%d violations=%d known=%d inconclusive=%d witnesses_ok=%d wall=%.1fs (load %.1fs)\n",
		*property, *tier, len(rep.Harnesses), rep.TotalPaths(), confirmed, len(knownHits), len(rep.Inconclusive), rep.WitnessOK, rep.Wall.Seconds(), eng.loadTime.Seconds())
	os.Exit(exit)
}

func compactModel(m map[string]string) string {
	ks := sortedKeys(m)
	var parts []string
	for _, k := range ks {
		parts = append(parts, k+"="+m[k])
	}
	return trunc(strings.Join(parts, " "), 1500)
}

func fatal(err error) {
	fmt.Fprintln(os.Stderr, "gosx:", err)
	os.Exit(2)
}

func modulePath(dir string) string {
	b, err := os.ReadFile(filepath.Join(dir, "go.mod"))
	if err != nil {
		return ""
	}
	for _, l := range strings.Split(string(b), "\n") {
		if rest, ok := strings.CutPrefix(strings.TrimSpace(l), "module "); ok {
			return strings.TrimSpace(rest)
		}
	}
	return ""
}

// reachLabels parses the harness sources for zzsym.Reach("...") per function.
func reachLabels(files map[string]string) map[string][]string {
	out := map[string][]string{}
	fset := token.NewFileSet()
	for _, real := range files {
		f, err := parser.ParseFile(fset, real, nil, 0)
		if err != nil {
			continue
		}
		for _, d := range f.Decls {
			fd, ok := d.(*ast.FuncDecl)
			if !ok || fd.Body == nil || fd.Recv != nil {
				continue
			}
			ast.Inspect(fd.Body, func(n ast.Node) bool {
				ce, ok := n.(*ast.CallExpr)
				if !ok {
					return true
				}
				se, ok := ce.Fun.(*ast.SelectorExpr)
				if !ok || se.Sel.Name != "Reach" {
					return true
				}
				if id, ok := se.X.(*ast.Ident); !ok || id.Name != "zzsym" {
					return true
				}
				if len(ce.Args) == 1 {
					if bl, ok := ce.Args[0].(*ast.BasicLit); ok {
						s, _ := strconv.Unquote(bl.Value)
						out[fd.Name.Name] = append(out[fd.Name.Name], s)
					}
				}
				return true
			})
		}
	}
	return out
}
