package main

// State merging for pure regions: at a branch on a symbolic condition, both
// sides are executed speculatively up to the immediate post-dominator; if
// neither side has side effects or can panic, the phi values at the join are
// merged with ite terms and no path is forked.  This is what keeps per-byte
// conditionals inside loops (hex upper-casing, clamps, min/max) from doubling
// the number of paths per iteration.

import (
	"go/token"
	"go/types"
	"slices"
	"sync"

	"golang.org/x/tools/go/ssa"
)

var (
	ipdomMu    sync.Mutex
	ipdomCache = map[*ssa.Function][]int{}
)

// ipdoms returns, per block index, the index of the immediate post-dominator
// (or -1 for the virtual exit).
func ipdoms(fn *ssa.Function) []int {
	ipdomMu.Lock()
	defer ipdomMu.Unlock()
	if r, ok := ipdomCache[fn]; ok {
		return r
	}
	n := len(fn.Blocks)
	exit := n
	succs := make([][]int, n+1) // in the reversed graph: preds of original
	rsucc := make([][]int, n+1) // reversed graph edges: from node to its original preds
	for _, b := range fn.Blocks {
		if len(b.Succs) == 0 {
			succs[b.Index] = []int{exit}
			rsucc[exit] = append(rsucc[exit], b.Index)
		}
		for _, s := range b.Succs {
			succs[b.Index] = append(succs[b.Index], s.Index)
			rsucc[s.Index] = append(rsucc[s.Index], b.Index)
		}
	}
	// postorder of reversed graph from exit
	order := make([]int, 0, n+1)
	seen := make([]bool, n+1)
	var dfs func(int)
	dfs = func(u int) {
		seen[u] = true
		for _, v := range rsucc[u] {
			if !seen[v] {
				dfs(v)
			}
		}
		order = append(order, u)
	}
	dfs(exit)
	po := make([]int, n+1)
	for i := range po {
		po[i] = -1
	}
	for i, u := range order {
		po[u] = i
	}
	idom := make([]int, n+1)
	for i := range idom {
		idom[i] = -2
	}
	idom[exit] = exit
	intersect := func(a, b int) int {
		for a != b {
			for po[a] < po[b] {
				a = idom[a]
			}
			for po[b] < po[a] {
				b = idom[b]
			}
		}
		return a
	}
	changed := true
	for changed {
		changed = false
		for i := len(order) - 2; i >= 0; i-- {
			u := order[i]
			newIdom := -2
			for _, s := range succs[u] {
				if idom[s] == -2 {
					continue
				}
				if newIdom == -2 {
					newIdom = s
				} else {
					newIdom = intersect(s, newIdom)
				}
			}
			if newIdom != -2 && idom[u] != newIdom {
				idom[u] = newIdom
				changed = true
			}
		}
	}
	res := make([]int, n)
	for i := 0; i < n; i++ {
		switch {
		case idom[i] == exit || idom[i] == -2:
			res[i] = -1
		default:
			res[i] = idom[i]
		}
	}
	ipdomCache[fn] = res
	return res
}

type mergeAbort struct{}

// summaries that are pure, total and never fork
var pureExterns = map[string]bool{
	"bytes.Equal":                       true,
	"crypto/subtle.ConstantTimeCompare": true,
	"internal/bytealg.Equal":            true,
}

const mergeBudget = 400

// tryMerge attempts to execute the If at the end of fr.block without forking.
// On success fr.block/prevBlock are positioned at the join with its phis
// already assigned (fr.phisDone) and true is returned.
func (ex *Exec) tryMerge(fr *frame, instr *ssa.If, cond *Term) bool {
	if ex.eng.cfg.NoMerge {
		return false
	}
	budget := mergeBudget
	// values already defined before the merge must not be redefined inside a
	// side (that would be a loop iteration whose header phis are live after
	// the join without passing through a phi of the join)
	ex.mergeBase = fr.env
	join, vals, last, ok := ex.mergeIf(fr, fr.block, cond, &budget)
	ex.mergeBase = nil
	if !ok {
		return false
	}
	k := 0
	for _, in := range join.Instrs {
		if p, isPhi := in.(*ssa.Phi); isPhi {
			fr.env[p] = vals[k]
			k++
		} else {
			break
		}
	}
	fr.prevBlock = last
	fr.block = join
	fr.phisDone = true
	ex.eng.stats.merges.Add(1)
	return true
}

func joinPhis(join *ssa.BasicBlock) []*ssa.Phi {
	var phis []*ssa.Phi
	for _, in := range join.Instrs {
		if p, isPhi := in.(*ssa.Phi); isPhi {
			phis = append(phis, p)
		} else {
			break
		}
	}
	return phis
}

// mergeIf merges the two sides of the symbolic If ending block b.  It returns
// the join block, the merged values of the join's phis and a predecessor of
// the join (for bookkeeping).
func (ex *Exec) mergeIf(fr *frame, b *ssa.BasicBlock, cond *Term, budget *int) (*ssa.BasicBlock, []Value, *ssa.BasicBlock, bool) {
	pd := ipdoms(fr.fn)
	j := pd[b.Index]
	if j < 0 {
		return nil, nil, nil, false
	}
	join := fr.fn.Blocks[j]
	phis := joinPhis(join)
	base := fr.env
	var sideVals [2][]Value
	var lastB *ssa.BasicBlock
	for s := 0; s < 2; s++ {
		env := make(map[ssa.Value]Value, len(base)+8)
		for k, v := range base {
			env[k] = v
		}
		fr.env = env
		vals, last, good := ex.runSide(fr, b.Succs[s], b, join, phis, budget)
		fr.env = base
		if !good {
			return nil, nil, nil, false
		}
		sideVals[s] = vals
		lastB = last
	}
	out := make([]Value, len(phis))
	for i := range phis {
		m, good := ex.mergeVal(cond, sideVals[0][i], sideVals[1][i])
		if !good {
			return nil, nil, nil, false
		}
		out[i] = m
	}
	return join, out, lastB, true
}

// runSide executes one side purely until join; returns the values the
// join's phis take when entered from this side.
func (ex *Exec) runSide(fr *frame, start, prev, join *ssa.BasicBlock, phis []*ssa.Phi, budget *int) (vals []Value, last *ssa.BasicBlock, ok bool) {
	defer func() {
		if r := recover(); r != nil {
			if _, isAbort := r.(mergeAbort); isAbort {
				ok = false
				return
			}
			panic(r)
		}
	}()
	cur := start
	phisDone := false
	for cur != join {
		cphis := joinPhis(cur)
		if !phisDone {
			pi := slices.Index(cur.Preds, prev)
			if pi < 0 {
				return nil, nil, false
			}
			tmp := make([]Value, len(cphis))
			for i, p := range cphis {
				tmp[i] = fr.get(p.Edges[pi])
			}
			for i, p := range cphis {
				ex.sideSet(fr, p, tmp[i])
			}
		}
		phisDone = false
		var next *ssa.BasicBlock
		for _, in := range cur.Instrs[len(cphis):] {
			*budget--
			if *budget < 0 {
				return nil, nil, false
			}
			switch in := in.(type) {
			case *ssa.DebugRef:
			case *ssa.Jump:
				next = cur.Succs[0]
			case *ssa.If:
				cv := fr.get(in.Cond)
				if b, isB := cv.(bool); isB {
					if b {
						next = cur.Succs[0]
					} else {
						next = cur.Succs[1]
					}
					break
				}
				nj, nvals, nlast, good := ex.mergeIf(fr, cur, cv.(SymBool).T, budget)
				if !good {
					return nil, nil, false
				}
				if nj == join {
					return nvals, nlast, true
				}
				for i, p := range joinPhis(nj) {
					ex.sideSet(fr, p, nvals[i])
				}
				next = nj
				phisDone = true
			default:
				if !ex.pureInstr(fr, in) {
					return nil, nil, false
				}
			}
		}
		if next == nil {
			return nil, nil, false
		}
		prev, cur = cur, next
	}
	pi := slices.Index(join.Preds, prev)
	if pi < 0 {
		return nil, nil, false
	}
	vals = make([]Value, len(phis))
	for i, p := range phis {
		vals[i] = fr.get(p.Edges[pi])
	}
	return vals, prev, true
}

func (ex *Exec) mergeVal(c *Term, a, b Value) (Value, bool) {
	switch av := a.(type) {
	case Int:
		bv, ok := b.(Int)
		if !ok || av.W != bv.W {
			return nil, false
		}
		if av.T == nil && bv.T == nil && av.C == bv.C {
			return av, true
		}
		return SInt(Ite(c, av.Term(), bv.Term())), true
	case bool, SymBool:
		switch b.(type) {
		case bool, SymBool:
			return mkBool(Ite(c, boolTerm(a), boolTerm(b))), true
		}
		return nil, false
	case string, SymStr:
		ab, aok := strBytesOf(a)
		bb, bok := strBytesOf(b)
		if !aok || !bok || len(ab) != len(bb) {
			return nil, false
		}
		out := make([]Value, len(ab))
		for i := range ab {
			m, ok := ex.mergeVal(c, ab[i], bb[i])
			if !ok {
				return nil, false
			}
			out[i] = m
		}
		return mkStrBytes(out), true
	case float64:
		if bf, ok := b.(float64); ok && bf == av {
			return av, true
		}
		return nil, false
	}
	if ex.sameConcrete(a, b) {
		return a, true
	}
	return nil, false
}

// pureInstr executes in if it is side-effect free and cannot panic or fork.
func (ex *Exec) pureInstr(fr *frame, in ssa.Instruction) bool {
	switch in := in.(type) {
	case *ssa.BinOp:
		x, y := fr.get(in.X), fr.get(in.Y)
		switch in.Op {
		case token.QUO, token.REM:
			yi, ok := y.(Int)
			if !ok || yi.T != nil || yi.C == 0 {
				return false
			}
		}
		switch x.(type) {
		case Int, bool, SymBool, string, SymStr:
		default:
			return false
		}
		if _, isStr := x.(SymStr); isStr {
			if in.Op != token.EQL && in.Op != token.NEQ {
				return false
			}
		}
		ex.sideSet(fr, in, ex.binop(in.Op, in.X.Type(), x, y))
		return true
	case *ssa.UnOp:
		switch in.Op {
		case token.NOT, token.SUB, token.XOR:
			ex.sideSet(fr, in, ex.unop(in, fr.get(in.X)))
			return true
		case token.MUL:
			p, ok := fr.get(in.X).(*Value)
			if !ok || p == nil {
				return false
			}
			ex.sideSet(fr, in, load(p))
			return true
		}
		return false
	case *ssa.Convert:
		x := fr.get(in.X)
		if _, ok := x.(Int); !ok {
			return false
		}
		if _, _, isInt := intWidth(in.Type()); !isInt {
			return false
		}
		ex.sideSet(fr, in, ex.conv(in.Type(), in.X.Type(), x))
		return true
	case *ssa.ChangeType:
		ex.sideSet(fr, in, fr.get(in.X))
		return true
	case *ssa.Extract:
		ex.sideSet(fr, in, fr.get(in.Tuple).(Tuple)[in.Index])
		return true
	case *ssa.FieldAddr:
		p, ok := fr.get(in.X).(*Value)
		if !ok || p == nil {
			return false
		}
		ex.sideSet(fr, in, &(*p).(Struct)[in.Field])
		return true
	case *ssa.Field:
		ex.sideSet(fr, in, copyVal(fr.get(in.X).(Struct)[in.Field]))
		return true
	case *ssa.IndexAddr:
		idx, ok := fr.get(in.Index).(Int)
		if !ok || idx.T != nil {
			return false
		}
		switch x := fr.get(in.X).(type) {
		case Slice:
			if idx.C >= uint64(len(x)) {
				return false
			}
			ex.sideSet(fr, in, &x[idx.C])
			return true
		case *Value:
			if x == nil {
				return false
			}
			a := (*x).(Array)
			if idx.C >= uint64(len(a)) {
				return false
			}
			ex.sideSet(fr, in, &a[idx.C])
			return true
		}
		return false
	case *ssa.Call:
		if fn, ok := in.Call.Value.(*ssa.Function); ok && in.Call.Method == nil && pureExterns[fn.String()] {
			ext := ex.eng.externs[fn.String()]
			if ext == nil {
				return false
			}
			var args []Value
			for _, a := range in.Call.Args {
				args = append(args, fr.get(a))
			}
			ex.sideSet(fr, in, ext(ex, fr, fn, args))
			return true
		}
		if b, ok := in.Call.Value.(*ssa.Builtin); ok && in.Call.Method == nil {
			switch b.Name() {
			case "len", "cap":
				a := fr.get(in.Call.Args[0])
				if _, isChan := a.(*Chan); isChan {
					return false
				}
				ex.sideSet(fr, in, ex.callBuiltin(fr, b, []Value{a}))
				return true
			case "min", "max":
				var args []Value
				for _, a := range in.Call.Args {
					v := fr.get(a)
					if _, isInt := v.(Int); !isInt {
						return false
					}
					args = append(args, v)
				}
				ex.sideSet(fr, in, ex.callBuiltin(fr, b, args))
				return true
			}
		}
		return false
	case *ssa.MakeInterface:
		ex.sideSet(fr, in, Iface{T: in.X.Type(), V: copyVal(fr.get(in.X))})
		return true
	}
	return false
}

var _ = types.Typ

func (ex *Exec) sideSet(fr *frame, v ssa.Value, val Value) {
	if ex.mergeBase != nil {
		if _, dup := ex.mergeBase[v]; dup {
			panic(mergeAbort{})
		}
	}
	fr.env[v] = val
}
