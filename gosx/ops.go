package main

import (
	"fmt"
	"go/constant"
	"go/token"
	"go/types"
	"math"
	"math/bits"
	"strings"
	"unicode/utf8"

	"golang.org/x/tools/go/ssa"
)

func constValue(c *ssa.Const) Value {
	if c.Value == nil {
		return zero(c.Type())
	}
	if t, ok := c.Type().Underlying().(*types.Basic); ok {
		if w, signed, ok := intWidth(t); ok {
			if signed {
				return CInt(uint64(c.Int64()), w)
			}
			return CInt(c.Uint64(), w)
		}
		switch t.Kind() {
		case types.Bool, types.UntypedBool:
			return constant.BoolVal(c.Value)
		case types.Float32:
			return float64(float32(c.Float64()))
		case types.Float64, types.UntypedFloat:
			return c.Float64()
		case types.Complex64, types.Complex128, types.UntypedComplex:
			return Complex{c.Complex128()}
		case types.String, types.UntypedString:
			if c.Value.Kind() == constant.String {
				return constant.StringVal(c.Value)
			}
			return string(rune(c.Int64()))
		}
	}
	panic(fmt.Sprintf("constValue: %s", c))
}

func (ex *Exec) unop(instr *ssa.UnOp, x Value) Value {
	switch instr.Op {
	case token.ARROW: // receive
		c := x.(*Chan)
		et := instr.X.Type().Underlying().(*types.Chan).Elem()
		v, ok := ex.chanRecv(c, et)
		if instr.CommaOk {
			return Tuple{v, ok}
		}
		return v
	case token.SUB:
		switch x := x.(type) {
		case Int:
			if x.T == nil {
				return CInt(-x.C, x.W)
			}
			return SInt(Un("bvneg", x.T.Sort, x.T))
		case float64:
			return -x
		case OpaqueFloat:
			return x
		case Complex:
			return Complex{-x.C}
		}
	case token.MUL:
		return load(ex.derefPtr(x, "load"))
	case token.NOT:
		return notVal(x)
	case token.XOR:
		x := x.(Int)
		if x.T == nil {
			return CInt(^x.C, x.W)
		}
		return SInt(Un("bvnot", x.T.Sort, x.T))
	}
	panic(fmt.Sprintf("invalid unary op %s %T", instr.Op, x))
}

func (ex *Exec) binop(op token.Token, t types.Type, x, y Value) Value {
	switch xv := x.(type) {
	case Int:
		return ex.intBinop(op, t, xv, y.(Int))
	case float64, OpaqueFloat:
		return ex.floatBinop(op, x, y)
	case string, SymStr:
		return ex.strBinop(op, x, y)
	case bool, SymBool:
		switch op {
		case token.EQL:
			return ex.eqVal(t, x, y)
		case token.NEQ:
			return notVal(ex.eqVal(t, x, y))
		case token.AND, token.LAND:
			return ex.andVal(x, y)
		case token.OR, token.LOR:
			return ex.orVal(x, y)
		}
	case Complex:
		yc := y.(Complex)
		switch op {
		case token.ADD:
			return Complex{xv.C + yc.C}
		case token.SUB:
			return Complex{xv.C - yc.C}
		case token.MUL:
			return Complex{xv.C * yc.C}
		case token.QUO:
			return Complex{xv.C / yc.C}
		case token.EQL:
			return xv.C == yc.C
		case token.NEQ:
			return xv.C != yc.C
		}
	}
	switch op {
	case token.EQL:
		return ex.eqVal(t, x, y)
	case token.NEQ:
		return notVal(ex.eqVal(t, x, y))
	}
	panic(fmt.Sprintf("invalid binary op: %T %s %T", x, op, y))
}

func (ex *Exec) floatBinop(op token.Token, x, y Value) Value {
	xf, xok := x.(float64)
	yf, yok := y.(float64)
	if !xok || !yok {
		switch op {
		case token.ADD, token.SUB, token.MUL, token.QUO:
			return OpaqueFloat{}
		}
		ex.unsupported("comparison of opaque float")
	}
	switch op {
	case token.ADD:
		return xf + yf
	case token.SUB:
		return xf - yf
	case token.MUL:
		return xf * yf
	case token.QUO:
		return xf / yf
	case token.EQL:
		return xf == yf
	case token.NEQ:
		return xf != yf
	case token.LSS:
		return xf < yf
	case token.LEQ:
		return xf <= yf
	case token.GTR:
		return xf > yf
	case token.GEQ:
		return xf >= yf
	}
	panic("float binop " + op.String())
}

func (ex *Exec) strBinop(op token.Token, x, y Value) Value {
	xs, xok := x.(string)
	ys, yok := y.(string)
	if xok && yok {
		switch op {
		case token.ADD:
			return xs + ys
		case token.EQL:
			return xs == ys
		case token.NEQ:
			return xs != ys
		case token.LSS:
			return xs < ys
		case token.LEQ:
			return xs <= ys
		case token.GTR:
			return xs > ys
		case token.GEQ:
			return xs >= ys
		}
	}
	switch op {
	case token.ADD:
		return concatStr([]Value{x, y})
	case token.EQL:
		return ex.strEq(x, y)
	case token.NEQ:
		return notVal(ex.strEq(x, y))
	}
	xt, yt := strTerm(x), strTerm(y)
	switch op {
	case token.LSS, token.LEQ, token.GTR, token.GEQ:
		// lexicographic order over an uninterpreted total order on sequences
		return ex.strOrder(op, xt, yt)
	}
	panic("string binop " + op.String())
}

func (ex *Exec) intBinop(op token.Token, t types.Type, x, y Int) Value {
	_, signed, _ := intWidth(t)
	w := x.W
	// shifts: y may have different width
	if op == token.SHL || op == token.SHR {
		return ex.shift(op, signed, x, y)
	}
	if y.W != w {
		panic(fmt.Sprintf("intBinop width mismatch %d %d for %s", x.W, y.W, op))
	}
	if x.T == nil && y.T == nil {
		a, b := x.C, y.C
		sa, sb := x.S64(), y.S64()
		switch op {
		case token.ADD:
			return CInt(a+b, w)
		case token.SUB:
			return CInt(a-b, w)
		case token.MUL:
			return CInt(a*b, w)
		case token.QUO:
			if b == 0 {
				ex.rtPanic("runtime error: integer divide by zero")
			}
			if signed {
				if sb == -1 {
					return CInt(uint64(-sa), w)
				}
				return CInt(uint64(sa/sb), w)
			}
			return CInt(a/b, w)
		case token.REM:
			if b == 0 {
				ex.rtPanic("runtime error: integer divide by zero")
			}
			if signed {
				if sb == -1 {
					return CInt(0, w)
				}
				return CInt(uint64(sa%sb), w)
			}
			return CInt(a%b, w)
		case token.AND:
			return CInt(a&b, w)
		case token.OR:
			return CInt(a|b, w)
		case token.XOR:
			return CInt(a^b, w)
		case token.AND_NOT:
			return CInt(a&^b, w)
		case token.EQL:
			return a == b
		case token.NEQ:
			return a != b
		case token.LSS:
			if signed {
				return sa < sb
			}
			return a < b
		case token.LEQ:
			if signed {
				return sa <= sb
			}
			return a <= b
		case token.GTR:
			if signed {
				return sa > sb
			}
			return a > b
		case token.GEQ:
			if signed {
				return sa >= sb
			}
			return a >= b
		}
		panic("int binop " + op.String())
	}
	a, b := x.Term(), y.Term()
	s := SBV(int(w))
	// algebraic identities that keep terms small
	if y.T == nil {
		switch {
		case y.C == 0 && (op == token.ADD || op == token.SUB || op == token.OR || op == token.XOR):
			return x
		case y.C == 1 && (op == token.MUL || op == token.QUO):
			return x
		case y.C == 0 && (op == token.MUL || op == token.AND):
			return CInt(0, w)
		}
	}
	if x.T == nil {
		switch {
		case x.C == 0 && (op == token.ADD || op == token.OR || op == token.XOR):
			return y
		case x.C == 1 && op == token.MUL:
			return y
		case x.C == 0 && (op == token.MUL || op == token.AND):
			return CInt(0, w)
		}
	}
	cmp := func(u, sgn string) Value {
		if signed {
			return mkBool(Bin(sgn, SBool, a, b))
		}
		return mkBool(Bin(u, SBool, a, b))
	}
	switch op {
	case token.ADD:
		if y.T == nil {
			return SInt(addConst(x.T, y.C, int(w)))
		}
		if x.T == nil {
			return SInt(addConst(y.T, x.C, int(w)))
		}
		return SInt(Bin("bvadd", s, a, b))
	case token.SUB:
		if y.T == nil {
			return SInt(addConst(x.T, -y.C, int(w)))
		}
		return SInt(Bin("bvsub", s, a, b))
	case token.MUL:
		return SInt(Bin("bvmul", s, a, b))
	case token.QUO, token.REM:
		if y.T != nil {
			if ex.branch(mkBool(Eq(b, BVConst(0, int(w))))) {
				ex.rtPanic("runtime error: integer divide by zero")
			}
		} else if y.C == 0 {
			ex.rtPanic("runtime error: integer divide by zero")
		}
		if op == token.QUO {
			if signed {
				return SInt(Bin("bvsdiv", s, a, b))
			}
			return SInt(Bin("bvudiv", s, a, b))
		}
		if signed {
			return SInt(Bin("bvsrem", s, a, b))
		}
		return SInt(Bin("bvurem", s, a, b))
	case token.AND:
		return SInt(Bin("bvand", s, a, b))
	case token.OR:
		return SInt(Bin("bvor", s, a, b))
	case token.XOR:
		return SInt(Bin("bvxor", s, a, b))
	case token.AND_NOT:
		return SInt(Bin("bvand", s, a, Un("bvnot", s, b)))
	case token.EQL:
		return mkBool(Eq(a, b))
	case token.NEQ:
		return mkBool(Not(Eq(a, b)))
	case token.LSS:
		return cmp("bvult", "bvslt")
	case token.LEQ:
		return cmp("bvule", "bvsle")
	case token.GTR:
		return cmp("bvugt", "bvsgt")
	case token.GEQ:
		return cmp("bvuge", "bvsge")
	}
	panic("int binop " + op.String())
}

// addConst builds t + c, folding nested constant additions:
// (t0 + c1) + c2 = t0 + (c1+c2).
func addConst(t *Term, c uint64, w int) *Term {
	c &= mask(uint8(w))
	const pre = "(bvadd "
	if strings.HasPrefix(t.S, pre) && w%4 == 0 {
		// "(bvadd X #x....)"
		i := strings.LastIndex(t.S, " #x")
		if i > 0 && i+3+w/4+1 == len(t.S) {
			var c0 uint64
			if _, err := fmt.Sscanf(t.S[i+3:len(t.S)-1], "%x", &c0); err == nil {
				base := &Term{t.S[len(pre):i], SBV(w)}
				c = (c + c0) & mask(uint8(w))
				t = base
			}
		}
	}
	if c == 0 {
		return t
	}
	return Bin("bvadd", SBV(w), t, BVConst(c, w))
}

func (ex *Exec) shift(op token.Token, signed bool, x, y Int) Value {
	w := x.W
	// a negative signed shift count panics; SSA guarantees the count type is
	// an integer; treat the count as unsigned after that check.
	if y.T == nil {
		cnt := y.C
		if x.T == nil {
			if op == token.SHL {
				if cnt >= uint64(w) {
					return CInt(0, w)
				}
				return CInt(x.C<<cnt, w)
			}
			if signed {
				if cnt >= uint64(w) {
					cnt = uint64(w) - 1
				}
				return CInt(uint64(x.S64()>>cnt), w)
			}
			if cnt >= uint64(w) {
				return CInt(0, w)
			}
			return CInt(x.C>>cnt, w)
		}
		if cnt >= uint64(w) {
			if op == token.SHR && signed {
				cnt = uint64(w) - 1
			} else {
				return CInt(0, w)
			}
		}
		if cnt == 0 {
			return x
		}
		c := BVConst(cnt, int(w))
		switch {
		case op == token.SHL:
			return SInt(Bin("bvshl", SBV(int(w)), x.T, c))
		case signed:
			return SInt(Bin("bvashr", SBV(int(w)), x.T, c))
		default:
			return SInt(Bin("bvlshr", SBV(int(w)), x.T, c))
		}
	}
	// symbolic count: bring to width w with saturation
	var c *Term
	if y.W > w {
		over := Bin("bvuge", SBool, y.T, BVConst(uint64(w), int(y.W)))
		c = Ite(over, BVConst(uint64(w), int(w)), Extract(int(w)-1, 0, y.T))
	} else {
		c = ZeroExt(int(w-y.W), y.T)
	}
	a := x.Term()
	switch {
	case op == token.SHL:
		return SInt(Bin("bvshl", SBV(int(w)), a, c))
	case signed:
		return SInt(Bin("bvashr", SBV(int(w)), a, c))
	default:
		return SInt(Bin("bvlshr", SBV(int(w)), a, c))
	}
}

// conv converts x of type tSrc to tDst.
func (ex *Exec) conv(tDst, tSrc types.Type, x Value) Value {
	ut_src := tSrc.Underlying()
	ut_dst := tDst.Underlying()

	switch ut_dst.(type) {
	case *types.Signature, *types.Map, *types.Chan, *types.Struct, *types.Array:
		return x
	case *types.Pointer:
		switch v := x.(type) {
		case UnsafePtr:
			return v.P
		case *Value:
			return v
		}
		return x
	case *types.Slice:
		// string -> []byte / []rune ; or named slice conversions
		switch xs := x.(type) {
		case Slice:
			return xs
		case string:
			et := ut_dst.(*types.Slice).Elem().Underlying().(*types.Basic)
			if et.Kind() == types.Uint8 {
				out := make(Slice, len(xs))
				for i := 0; i < len(xs); i++ {
					out[i] = CInt(uint64(xs[i]), 8)
				}
				return out
			}
			var out Slice = Slice{}
			for _, r := range xs {
				out = append(out, CInt(uint64(uint32(r)), 32))
			}
			return out
		case SymStr:
			if xs.B != nil {
				out := make(Slice, len(xs.B))
				copy(out, xs.B)
				return out
			}
			n := ex.concretize(SInt(SeqLen(xs.T)))
			if n > 1<<16 {
				ex.unsupported("symbolic string too long to materialise")
			}
			out := make(Slice, n)
			for i := range out {
				out[i] = SInt(SeqNth(xs.T, BVConst(uint64(i), 64)))
			}
			return out
		}
	case *types.Basic:
		dst := ut_dst.(*types.Basic)
		if dst.Kind() == types.UnsafePointer {
			switch v := x.(type) {
			case *Value:
				return UnsafePtr{P: v}
			case UnsafePtr:
				return v
			case Int:
				return UnsafePtr{}
			}
		}
		if dst.Info()&types.IsString != 0 {
			switch xs := x.(type) {
			case string, SymStr:
				return xs
			case Int:
				// integer -> string (rune)
				if xs.T != nil {
					ex.unsupported("string(symbolic rune)")
				}
				return string(rune(xs.S64()))
			case Slice:
				if sl, ok := ut_src.(*types.Slice); ok {
					if eb, ok := sl.Elem().Underlying().(*types.Basic); ok && eb.Kind() != types.Uint8 {
						// []rune -> string
						rs := make([]rune, len(xs))
						for i, r := range xs {
							rs[i] = rune(ex.concretize(r.(Int)))
						}
						return string(rs)
					}
				}
				return ex.bytesToStr(xs)
			}
		}
		if w, signed, ok := intWidth(dst); ok {
			switch xs := x.(type) {
			case Int:
				_, ssigned, _ := intWidth(ut_src)
				return ex.toW(xs, w, ssigned)
			case float64:
				if signed {
					return CInt(uint64(int64(xs)), w)
				}
				return CInt(uint64(xs), w)
			case OpaqueFloat:
				ex.unsupported("opaque float -> int")
			case UnsafePtr:
				return CInt(0, w)
			}
		}
		if dst.Info()&types.IsFloat != 0 {
			switch xs := x.(type) {
			case float64:
				if dst.Kind() == types.Float32 {
					return float64(float32(xs))
				}
				return xs
			case OpaqueFloat:
				return xs
			case Int:
				if xs.T != nil {
					return OpaqueFloat{}
				}
				_, ssigned, _ := intWidth(ut_src)
				var f float64
				if ssigned {
					f = float64(xs.S64())
				} else {
					f = float64(xs.C)
				}
				if dst.Kind() == types.Float32 {
					f = float64(float32(f))
				}
				return f
			}
		}
		if dst.Info()&types.IsComplex != 0 {
			return x
		}
		if dst.Info()&types.IsBoolean != 0 {
			return x
		}
	case *types.Interface:
		return x
	}
	panic(fmt.Sprintf("unsupported conversion: %s -> %s, dynamic type %T", tSrc, tDst, x))
}

func (ex *Exec) bytesToStr(xs Slice) Value {
	allc := true
	for _, b := range xs {
		if b.(Int).T != nil {
			allc = false
			break
		}
	}
	if allc {
		bs := make([]byte, len(xs))
		for i, b := range xs {
			bs[i] = byte(b.(Int).C)
		}
		return string(bs)
	}
	return mkStrBytes(xs)
}

// seqOfBytes builds a Seq term from explicit bytes, grouping concrete runs.
func (ex *Exec) seqOfBytes(xs []Value) *Term {
	parts := make([]*Term, 0, len(xs))
	for _, b := range xs {
		parts = append(parts, SeqUnit(b.(Int).Term()))
	}
	return SeqConcat(parts...)
}

func concBytes(xs []Value) ([]byte, bool) {
	bs := make([]byte, len(xs))
	for i, b := range xs {
		bi, ok := b.(Int)
		if !ok || bi.T != nil {
			return nil, false
		}
		bs[i] = byte(bi.C)
	}
	return bs, true
}

func bytesSlice(bs []byte) Slice {
	out := make(Slice, len(bs))
	for i, b := range bs {
		out[i] = CInt(uint64(b), 8)
	}
	return out
}

var _ = math.MaxInt
var _ = bits.Len
var _ = utf8.RuneError
