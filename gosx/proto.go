package main

// Wire model of google.golang.org/protobuf for the generated messages of the
// repository, driven on every run by the `protobuf:"…"` struct tags of the
// loaded *.pb.go types (field number, wire type, repeated or not), i.e. by the
// current tree.  Structure is exact proto3: fields in field-number order,
// zero-value omission, tag and length prefixes as real varints, nested messages
// length-delimited, present-but-empty sub-messages kept.  One deliberate
// deviation: the *payload* of a varint field is written as a fixed 10-byte
// group (marker 0x80 0x80 + 8 value bytes) so that the length of an encoding
// does not depend on symbolic integer values.  The encoding stays injective,
// which is all the repo code relies on (it only hashes, signs, stores and
// decodes these bytes).  Byte-exact sizes (proto.Size, metrics) are therefore
// outside every claim.  The protobuf runtime itself is trusted, not executed.

import (
	"fmt"
	"go/token"
	"go/types"
	"reflect"
	"sort"
	"strconv"
	"strings"

	"golang.org/x/tools/go/ssa"
)

type pbField struct {
	idx  int // struct field index
	num  int
	kind string // varint, bytes, fixed64, fixed32, zigzag32, zigzag64
	rep  bool
	req  bool
	typ  types.Type
	name string
}

func pbFields(st *types.Struct) []pbField {
	var out []pbField
	for i := 0; i < st.NumFields(); i++ {
		tag := reflect.StructTag(st.Tag(i)).Get("protobuf")
		if tag == "" {
			continue
		}
		parts := strings.Split(tag, ",")
		if len(parts) < 3 {
			continue
		}
		num, err := strconv.Atoi(parts[1])
		if err != nil {
			continue
		}
		f := pbField{idx: i, num: num, kind: parts[0], rep: parts[2] == "rep", typ: st.Field(i).Type(), req: parts[2] == "req"}
		for _, p := range parts[3:] {
			if n, ok := strings.CutPrefix(p, "name="); ok {
				f.name = n
			}
		}
		out = append(out, f)
	}
	sort.Slice(out, func(i, j int) bool { return out[i].num < out[j].num })
	return out
}

func varintBytes(x uint64) []Value {
	var out []Value
	for x >= 0x80 {
		out = append(out, CInt(uint64(byte(x)|0x80), 8))
		x >>= 7
	}
	return append(out, CInt(x, 8))
}

func fixedVarint(x Int) []Value {
	out := []Value{CInt(0x80, 8), CInt(0x80, 8)}
	for i := 7; i >= 0; i-- {
		if x.T == nil {
			out = append(out, CInt(x.C>>(8*uint(i)), 8))
		} else {
			out = append(out, SInt(Extract(8*i+7, 8*i, x.T)))
		}
	}
	return out
}

func (ex *Exec) pbMsgStruct(v Value, t types.Type) (Struct, *types.Struct, bool) {
	p, ok := v.(*Value)
	if !ok {
		ex.unsupported(fmt.Sprintf("proto: message value is %T", v))
	}
	if p == nil {
		return nil, nil, false
	}
	pt, ok := t.Underlying().(*types.Pointer)
	if !ok {
		ex.unsupported("proto: message type is not a pointer: " + t.String())
	}
	st, ok := pt.Elem().Underlying().(*types.Struct)
	if !ok {
		ex.unsupported("proto: message is not a struct: " + t.String())
	}
	return (*p).(Struct), st, true
}

func (ex *Exec) pbEncode(v Value, t types.Type) []Value {
	s, st, ok := ex.pbMsgStruct(v, t)
	if !ok {
		return nil
	}
	var out []Value
	for _, f := range pbFields(st) {
		fv := s[f.idx]
		tagOf := func(wt int) []Value { return varintBytes(uint64(f.num<<3 | wt)) }
		switch f.kind {
		case "varint":
			var x Int
			explicit := false
			ft := f.typ
			if p, isPtr := fv.(*Value); isPtr {
				// proto2 optional/required scalar: presence = non-nil pointer
				if p == nil {
					continue
				}
				fv = *p
				ft = deref(f.typ)
				explicit = true
			}
			switch b := fv.(type) {
			case Int:
				_, signed, _ := intWidth(ft)
				x = ex.toW(b, 64, signed)
			case bool:
				if b {
					x = CInt(1, 64)
				} else {
					x = CInt(0, 64)
				}
			case SymBool:
				x = SInt(Ite(b.T, BVConst(1, 64), BVConst(0, 64)))
			default:
				ex.unsupported(fmt.Sprintf("proto: varint field %s is %T", f.name, fv))
			}
			if explicit {
				// always on the wire
			} else if x.T == nil {
				if x.C == 0 {
					continue
				}
			} else if ex.branch(mkBool(Eq(x.T, BVConst(0, 64)))) {
				continue
			}
			out = append(out, tagOf(0)...)
			out = append(out, fixedVarint(x)...)
		case "fixed64", "fixed32":
			ex.unsupported("proto: fixed-width fields not modelled")
		case "bytes":
			emit := func(payload []Value) {
				out = append(out, tagOf(2)...)
				out = append(out, varintBytes(uint64(len(payload)))...)
				out = append(out, payload...)
			}
			switch b := fv.(type) {
			case string:
				if len(b) == 0 {
					continue
				}
				emit(bytesSlice([]byte(b)))
			case SymStr:
				bs := ex.conv(types.NewSlice(types.Typ[types.Uint8]), types.Typ[types.String], b).(Slice)
				if len(bs) == 0 {
					continue
				}
				emit(bs)
			case *Value: // sub-message
				if b == nil {
					continue
				}
				emit(ex.pbEncode(b, f.typ))
			case Slice:
				if f.rep {
					et := f.typ.Underlying().(*types.Slice).Elem()
					for _, e := range b {
						switch e := e.(type) {
						case Slice:
							emit(e)
						case string:
							emit(bytesSlice([]byte(e)))
						case SymStr:
							emit(ex.conv(types.NewSlice(types.Typ[types.Uint8]), types.Typ[types.String], e).(Slice))
						case *Value:
							if e == nil {
								ex.rtPanic("proto: repeated field contains nil message")
							}
							emit(ex.pbEncode(e, et))
						default:
							ex.unsupported(fmt.Sprintf("proto: repeated element %T", e))
						}
					}
				} else {
					if len(b) == 0 && !(f.req && b != nil) {
						continue
					}
					emit(b)
				}
			default:
				ex.unsupported(fmt.Sprintf("proto: bytes field %s is %T", f.name, fv))
			}
		default:
			ex.unsupported("proto: wire kind " + f.kind)
		}
	}
	return out
}

type pbParseError struct{ msg string }

// readVarint reads a real (tag/length) varint; structure bytes must be concrete.
func (ex *Exec) pbReadVarint(b []Value, pos int) (uint64, int, bool) {
	var x uint64
	for shift := uint(0); shift < 64; shift += 7 {
		if pos >= len(b) {
			return 0, pos, false
		}
		bi := b[pos].(Int)
		if bi.T != nil {
			panic(pbParseError{"symbolic-structure"})
		}
		pos++
		x |= uint64(bi.C&0x7f) << shift
		if bi.C&0x80 == 0 {
			return x, pos, true
		}
	}
	return 0, pos, false
}

// pbDecode fills the message struct from bytes produced by this wire model.
func (ex *Exec) pbDecode(b []Value, v Value, t types.Type) bool {
	s, st, ok := ex.pbMsgStruct(v, t)
	if !ok {
		ex.rtPanic("proto: Unmarshal into nil message")
	}
	fields := pbFields(st)
	byNum := map[int]pbField{}
	for _, f := range fields {
		byNum[f.num] = f
		// reset
		s[f.idx] = zero(f.typ)
	}
	pos := 0
	for pos < len(b) {
		tag, np, ok := ex.pbReadVarint(b, pos)
		if !ok {
			return false
		}
		pos = np
		num, wt := int(tag>>3), int(tag&7)
		f, known := byNum[num]
		switch wt {
		case 0:
			// fixed 10-byte payload of the model
			if pos+10 > len(b) {
				return false
			}
			m0, m1 := b[pos].(Int), b[pos+1].(Int)
			if m0.T != nil || m1.T != nil {
				panic(pbParseError{"symbolic-structure"})
			}
			if m0.C != 0x80 || m1.C != 0x80 {
				panic(pbParseError{"foreign-varint"})
			}
			x := ex.joinBytes(b[pos+2 : pos+10])
			pos += 10
			if !known || f.kind != "varint" {
				continue // unknown field / wire-type mismatch: kept as unknown, no error
			}
			if pt, isPtr := f.typ.Underlying().(*types.Pointer); isPtr {
				w, _, _ := intWidth(pt.Elem())
				var cell Value = ex.toW(x, w, false)
				s[f.idx] = &cell
			} else if isBoolT(f.typ) {
				s[f.idx] = notVal(ex.intBinop(token.EQL, types.Typ[types.Uint64], x, CInt(0, 64)))
			} else {
				w, _, _ := intWidth(f.typ)
				s[f.idx] = ex.toW(x, w, false)
			}
		case 2:
			n, np, ok := ex.pbReadVarint(b, pos)
			if !ok {
				return false
			}
			pos = np
			if uint64(pos)+n > uint64(len(b)) {
				return false
			}
			payload := b[pos : pos+int(n)]
			pos += int(n)
			if !known || f.kind != "bytes" {
				continue
			}
			if !ex.pbSetBytesField(s, f, payload) {
				return false
			}
		default:
			return false
		}
	}
	return true
}

func (ex *Exec) pbSetBytesField(s Struct, f pbField, payload []Value) bool {
	cp := make(Slice, len(payload))
	copy(cp, payload)
	setOne := func(t types.Type) (Value, bool) {
		switch u := t.Underlying().(type) {
		case *types.Basic: // string
			return ex.bytesToStr(cp), true
		case *types.Slice: // []byte
			return cp, true
		case *types.Pointer: // message
			cell := zero(u.Elem())
			p := &cell
			if !ex.pbDecode(cp, p, t) {
				return nil, false
			}
			return p, true
		}
		return nil, false
	}
	if f.rep {
		et := f.typ.Underlying().(*types.Slice).Elem()
		v, ok := setOne(et)
		if !ok {
			return false
		}
		cur, _ := s[f.idx].(Slice)
		s[f.idx] = append(cur, v)
		return true
	}
	v, ok := setOne(f.typ)
	if !ok {
		return false
	}
	s[f.idx] = v
	return true
}

// joinBytes concatenates 8 byte values (big-endian) into a 64-bit Int,
// recognising extracts of one term.
func (ex *Exec) joinBytes(bs []Value) Int {
	allc := true
	for _, b := range bs {
		if b.(Int).T != nil {
			allc = false
		}
	}
	if allc {
		var x uint64
		for _, b := range bs {
			x = x<<8 | b.(Int).C
		}
		return CInt(x, uint8(8*len(bs)))
	}
	// pattern: ((_ extract hi lo) T) pieces of the same T in order
	var base string
	okPat := true
	for i, b := range bs {
		bi := b.(Int)
		if bi.T == nil {
			okPat = false
			break
		}
		hi := 8*(len(bs)-1-i) + 7
		pre := fmt.Sprintf("((_ extract %d %d) ", hi, hi-7)
		if !strings.HasPrefix(bi.T.S, pre) {
			okPat = false
			break
		}
		inner := bi.T.S[len(pre) : len(bi.T.S)-1]
		if i == 0 {
			base = inner
		} else if inner != base {
			okPat = false
			break
		}
	}
	if okPat {
		return SInt(&Term{base, SBV(8 * len(bs))})
	}
	var sb strings.Builder
	sb.WriteString("(concat")
	for _, b := range bs {
		sb.WriteByte(' ')
		sb.WriteString(b.(Int).Term().S)
	}
	sb.WriteByte(')')
	return SInt(mk(sb.String(), SBV(8*len(bs))))
}

func registerProto(e *Engine) {
	x := e.externs
	x["google.golang.org/protobuf/proto.Marshal"] = func(ex *Exec, c *frame, f *ssa.Function, a []Value) Value {
		m := a[0].(Iface)
		if m.T == nil {
			return Tuple{Slice(nil), Iface{}}
		}
		out := ex.pbEncode(m.V, m.T)
		if out == nil {
			out = Slice{}
		}
		return Tuple{Slice(out), Iface{}}
	}
	x["google.golang.org/protobuf/proto.Size"] = func(ex *Exec, c *frame, f *ssa.Function, a []Value) Value {
		m := a[0].(Iface)
		if m.T == nil {
			return CInt(0, 64)
		}
		return CInt(uint64(len(ex.pbEncode(m.V, m.T))), 64)
	}
	x["google.golang.org/protobuf/proto.Unmarshal"] = func(ex *Exec, c *frame, f *ssa.Function, a []Value) (res Value) {
		m := a[1].(Iface)
		b := a[0].(Slice)
		defer func() {
			if r := recover(); r != nil {
				if pe, ok := r.(pbParseError); ok {
					ex.unsupported("proto.Unmarshal of bytes not produced by the wire model (" + pe.msg + ")")
				}
				panic(r)
			}
		}()
		if ex.pbDecode(b, m.V, m.T) {
			return Iface{}
		}
		return ex.newError("proto: cannot parse invalid wire-format data")
	}
}
