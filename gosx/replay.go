package main

import (
	"bytes"
	"encoding/json"
	"fmt"
	"os"
	"os/exec"
	"path/filepath"
	"sort"
	"strings"
	"time"
)

type ReplayCase struct {
	ID      int               `json:"id"`
	Harness string            `json:"harness"`
	Model   map[string]string `json:"model"`
}

type ReplayResult struct {
	ID          int      `json:"id"`
	Harness     string   `json:"harness"`
	Failed      []string `json:"failed"`
	Panic       string   `json:"panic"`
	Obs         []ObsVal `json:"obs"`
	Aborted     string   `json:"aborted"`
	Hung        bool     `json:"hung"`
	MissingVars []string `json:"missing_vars"`
}

type Replayer struct {
	Dir     string
	Real    map[string]string // virtual -> real harness files
	ModPath string
	Pkgs    []string
	Names   []string
	PkgOf   map[string]string // harness -> package rel dir
	PkgName map[string]string // rel dir -> package name
}

func (r ReplayResult) Confirms(v Violation) (bool, string) {
	if r.Aborted != "" {
		return false, "native run aborted: " + r.Aborted
	}
	if v.Label == "panic" {
		if r.Panic != "" {
			return true, "native panic: " + trunc(r.Panic, 300)
		}
		return false, "no native panic"
	}
	if v.Label == "blocked" {
		if r.Hung {
			return true, "native run did not return within its deadline (still blocked)"
		}
		return false, "native run returned"
	}
	for _, f := range r.Failed {
		if f == v.Label {
			return true, "native assertion failed: " + f
		}
	}
	if r.Hung && strings.HasPrefix(v.Label, "stops-promptly") {
		return true, "native run had not returned 20 s after the stop request"
	}
	if r.Panic != "" {
		return false, "native run panicked instead: " + trunc(r.Panic, 300)
	}
	return false, fmt.Sprintf("native run did not fail %q (failed=%v)", v.Label, r.Failed)
}

func (r ReplayResult) MatchesWitness(exp []ObsVal) string {
	if r.Aborted != "" {
		return "native run aborted: " + r.Aborted
	}
	if r.Panic != "" {
		return "native run panicked: " + trunc(r.Panic, 300)
	}
	if len(r.Failed) > 0 {
		return fmt.Sprintf("native run failed assertions %v", r.Failed)
	}
	if len(exp) != len(r.Obs) {
		return fmt.Sprintf("observation count differs: engine %d native %d", len(exp), len(r.Obs))
	}
	for i := range exp {
		if exp[i].Label != r.Obs[i].Label || exp[i].Value != r.Obs[i].Value {
			return fmt.Sprintf("observation %d differs: engine %s=%s native %s=%s", i, exp[i].Label, exp[i].Value, r.Obs[i].Label, r.Obs[i].Value)
		}
	}
	return ""
}

// Run executes the cases natively (go test -overlay) and returns results in order.
func (rp *Replayer) Run(cases []ReplayCase) ([]ReplayResult, error) {
	tmp, err := os.MkdirTemp("/var/tmp", "verif-replay-")
	if err != nil {
		return nil, err
	}
	defer os.RemoveAll(tmp)
	// group harness functions by package using the source files
	byPkg := map[string][]string{} // rel dir -> function names
	pkgName := map[string]string{}
	for virt, real := range rp.Real {
		if strings.Contains(virt, "/internal/zzsym/") {
			continue
		}
		rel, _ := filepath.Rel(rp.Dir, filepath.Dir(virt))
		src, _ := os.ReadFile(real)
		for _, line := range strings.Split(string(src), "\n") {
			if rest, ok := strings.CutPrefix(line, "package "); ok && pkgName[rel] == "" {
				pkgName[rel] = strings.TrimSpace(rest)
			}
			if rest, ok := strings.CutPrefix(line, "func ZZ_"); ok {
				if i := strings.Index(rest, "()"); i > 0 {
					byPkg[rel] = append(byPkg[rel], "ZZ_"+rest[:i])
				}
			}
		}
	}
	ov := map[string]string{}
	for virt, real := range rp.Real {
		// engine-only files are excluded by build tag; pass everything
		ov[virt] = real
	}
	var rels []string
	for rel := range byPkg {
		rels = append(rels, rel)
	}
	sort.Strings(rels)
	in := filepath.Join(tmp, "cases.json")
	b, _ := json.Marshal(cases)
	os.WriteFile(in, b, 0644)
	var all []ReplayResult
	for _, rel := range rels {
		// only run packages that have a case
		need := false
		fnset := map[string]bool{}
		for _, f := range byPkg[rel] {
			fnset[f] = true
		}
		for _, c := range cases {
			if fnset[c.Harness] {
				need = true
			}
		}
		if !need {
			continue
		}
		var sb strings.Builder
		fmt.Fprintf(&sb, "package %s\n\nimport (\n\t\"testing\"\n\tzz \"%s/internal/zzsym\"\n)\n\nfunc TestZZReplay(t *testing.T) {\n\tzz.ReplayMain(map[string]func(){\n", pkgName[rel], rp.ModPath)
		sort.Strings(byPkg[rel])
		for _, f := range byPkg[rel] {
			fmt.Fprintf(&sb, "\t\t%q: %s,\n", f, f)
		}
		sb.WriteString("\t})\n}\n")
		tf := filepath.Join(tmp, "zz_replay_"+sanitize(rel)+"_test.go")
		os.WriteFile(tf, []byte(sb.String()), 0644)
		ov[filepath.Join(rp.Dir, rel, "zz_verif_replay_test.go")] = tf
		ovb, _ := json.Marshal(map[string]interface{}{"Replace": ov})
		ovf := filepath.Join(tmp, "overlay.json")
		os.WriteFile(ovf, ovb, 0644)
		out := filepath.Join(tmp, "out_"+sanitize(rel)+".json")
		args := []string{"test", "-vet=off", "-count=1", "-run", "^TestZZReplay$", "-overlay", ovf, "-timeout", "300s"}
		if mf, cleanup := scratchModfile(rp.Dir); mf != "" {
			defer cleanup()
			args = append(args, mf)
		}
		cmd := exec.Command("go", append(args, "./"+rel)...)
		cmd.Dir = rp.Dir
		cmd.Env = append(os.Environ(), "GOFLAGS=-mod=mod", "GOPROXY=off", "GOTOOLCHAIN=auto", "VERIF_REPLAY_IN="+in, "VERIF_REPLAY_OUT="+out, "GOCACHE="+goCache())
		var buf bytes.Buffer
		cmd.Stdout = &buf
		cmd.Stderr = &buf
		t0 := time.Now()
		err := cmd.Run()
		_ = t0
		rb, rerr := os.ReadFile(out)
		if rerr != nil {
			return nil, fmt.Errorf("native replay produced no output (err=%v): %s", err, trunc(buf.String(), 3000))
		}
		var res []ReplayResult
		if jerr := json.Unmarshal(rb, &res); jerr != nil {
			return nil, fmt.Errorf("bad replay output: %v", jerr)
		}
		all = append(all, res...)
		delete(ov, filepath.Join(rp.Dir, rel, "zz_verif_replay_test.go"))
	}
	// order by case id
	byID := map[int]ReplayResult{}
	for _, r := range all {
		byID[r.ID] = r
	}
	out := make([]ReplayResult, len(cases))
	for i, c := range cases {
		r, ok := byID[c.ID]
		if !ok {
			r = ReplayResult{ID: c.ID, Harness: c.Harness, Aborted: "case not executed"}
		}
		out[i] = r
	}
	return out, nil
}

func goCache() string {
	if c := os.Getenv("GOCACHE"); c != "" {
		return c
	}
	out, err := exec.Command("go", "env", "GOCACHE").Output()
	if err == nil {
		return strings.TrimSpace(string(out))
	}
	return "/root/.cache/go-build"
}
