package main

import (
	"encoding/json"
	"os"
	"path/filepath"
	"sort"
	"strings"
	"time"
)

type Report struct {
	Property     string
	Tier         string
	Harnesses    []*HarnessResult
	Violations   []map[string]interface{}
	KnownHits    []string
	Inconclusive []string
	WitnessOK    int
	Wall         time.Duration
	LoadTime     time.Duration
}

func (r *Report) TotalPaths() int {
	n := 0
	for _, h := range r.Harnesses {
		n += h.Paths
	}
	return n
}

type harnessMeta struct {
	Bounds      map[string]interface{} `json:"bounds"`
	Assumptions []string               `json:"assumptions"`
	Summaries   []string               `json:"summaries"`
	Outside     []string               `json:"outside"`
}

func (r *Report) WriteEvidence(path string, eng *Engine) error {
	var meta harnessMeta
	// META.json sits in the harness directory (next to the overlay tree)
	for _, cand := range []string{filepath.Join(filepath.Dir(path), "..", "harness", r.Property, "META.json")} {
		if b, err := os.ReadFile(cand); err == nil {
			json.Unmarshal(b, &meta)
		}
	}
	states, trans, queries := 0, int64(0), 0
	completed := 0
	solverS := 0.0
	var samples []interface{}
	var hsum []map[string]interface{}
	obligations, discharged := 0, 0
	for _, h := range r.Harnesses {
		states += h.Paths
		completed += h.Completed
		trans += h.Steps
		queries += h.Queries
		solverS += h.SolverTime.Seconds()
		nv := 0
		for _, v := range h.Viols {
			if v.Known == "" {
				nv++
			}
		}
		obligations++
		if nv == 0 && len(h.Incon) == 0 {
			discharged++
		}
		hs := map[string]interface{}{
			"harness": h.Name, "paths": h.Paths, "completed": h.Completed, "statuses": h.Statuses,
			"reach_labels": h.Reached, "queries": h.Queries, "solver_s": round3(h.SolverTime.Seconds()),
			"wall_s": round3(h.Wall.Seconds()), "max_decision_depth": h.MaxDepth, "instructions": h.Steps,
		}
		hsum = append(hsum, hs)
		for i, s := range h.Samples {
			if i >= 3 {
				break
			}
			samples = append(samples, map[string]interface{}{"harness": h.Name, "path": s})
		}
	}
	if len(samples) == 0 {
		samples = append(samples, "no completed path")
	}
	eng.funcsMu.Lock()
	var funcs []string
	for f := range eng.funcsEncoded {
		funcs = append(funcs, f)
	}
	eng.funcsMu.Unlock()
	sort.Strings(funcs)
	seed := 0
	ev := map[string]interface{}{
		"property_id": r.Property,
		"tier":        r.Tier,
		"seed":        seed,
		"level":       "model_checking",
		"wall_s":      round3(r.Wall.Seconds()),
		"violations":  len(r.Violations),
		"assumptions": append([]string{
			"bounded symbolic execution: every claim is 'for all inputs within the stated bounds'; nothing is claimed outside them",
			"library summaries listed under coverage.summaries_used are trusted",
		}, meta.Assumptions...),
		"coverage": map[string]interface{}{
			"states":                        max(states, 1),
			"transitions":                   max(trans, 1),
			"traces_validated_against_impl": r.WitnessOK,
			"samples":                       samples,
			"explanation":                   "states = symbolic paths explored (each covers all inputs satisfying its path condition); transitions = SSA instructions of the real code interpreted symbolically; traces_validated = completed paths whose solver model was run natively against the real build with identical observations",
			"paths_completed":               completed,
			"obligations":                   obligations,
			"discharged":                    discharged,
			"queries":                       queries,
			"solver_s":                      round3(solverS),
			"load_s":                        round3(r.LoadTime.Seconds()),
			"solver":                        eng.cfg.Solver,
			"harnesses":                     hsum,
			"functions_encoded":             funcs,
			"bounds":                        meta.Bounds,
			"summaries_used":                meta.Summaries,
			"outside_claim":                 meta.Outside,
			"known_findings_hit":            r.KnownHits,
			"inconclusive":                  r.Inconclusive,
			"violations_detail":             r.Violations,
			"exhaustive":                    len(r.Inconclusive) == 0,
		},
	}
	b, err := json.MarshalIndent(ev, "", " ")
	if err != nil {
		return err
	}
	os.MkdirAll(filepath.Dir(path), 0755)
	return os.WriteFile(path, b, 0644)
}

func round3(f float64) float64 { return float64(int64(f*1000)) / 1000 }

var _ = strings.TrimSpace
