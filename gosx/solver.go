package main

import (
	"bufio"
	"context"
	"fmt"
	"io"
	"os"
	"os/exec"
	"strings"
	"time"
)

type SatResult int

const (
	Unsat SatResult = iota
	Sat
	Unknown
)

func (r SatResult) String() string { return [...]string{"unsat", "sat", "unknown"}[r] }

type Solver struct {
	name     string
	cmd      *exec.Cmd
	in       io.WriteCloser
	out      *bufio.Reader
	sent     map[string]bool
	level    int
	Queries  int
	Time     time.Duration
	seq      int
	log      io.Writer
	Errors   []string
	timeout  int
	lines    chan string
	Dead      bool
	Timeouts  int
	frames    [][]string
	Fallbacks int
}

func NewSolver(kind string, timeoutMs int) (*Solver, error) {
	var cmd *exec.Cmd
	switch kind {
	case "z3", "":
		cmd = exec.Command("z3", "-in", "-smt2")
		kind = "z3"
	case "z3-new":
		cmd = exec.Command("z3-new", "-in", "-smt2")
	case "cvc5":
		cmd = exec.Command("cvc5", "--incremental", "--strings-exp", "--lang=smt2", fmt.Sprintf("--tlimit-per=%d", timeoutMs))
	default:
		return nil, fmt.Errorf("unknown solver %q", kind)
	}
	in, err := cmd.StdinPipe()
	if err != nil {
		return nil, err
	}
	outp, err := cmd.StdoutPipe()
	if err != nil {
		return nil, err
	}
	cmd.Stderr = os.Stderr
	if err := cmd.Start(); err != nil {
		return nil, err
	}
	s := &Solver{name: kind, cmd: cmd, in: in, out: bufio.NewReaderSize(outp, 1<<20), sent: map[string]bool{}, timeout: timeoutMs, lines: make(chan string, 1024)}
	go func() {
		for {
			line, err := s.out.ReadString('\n')
			if err != nil {
				close(s.lines)
				return
			}
			s.lines <- line
		}
	}()
	if f := os.Getenv("GOSX_SMTLOG"); f != "" {
		w, _ := os.OpenFile(fmt.Sprintf("%s.%d", f, cmd.Process.Pid), os.O_CREATE|os.O_WRONLY|os.O_TRUNC, 0644)
		s.log = w
	}
	if kind == "cvc5" {
		s.raw("(set-option :global-declarations true)\n(set-logic ALL)\n")
	} else {
		s.raw(fmt.Sprintf("(set-option :global-declarations true)\n(set-option :timeout %d)\n(set-option :smt.relevancy 0)\n", timeoutMs))
	}
	return s, nil
}

func (s *Solver) Close() {
	s.in.Close()
	done := make(chan struct{})
	go func() { s.cmd.Wait(); close(done) }()
	select {
	case <-done:
	case <-time.After(2 * time.Second):
		s.cmd.Process.Kill()
	}
}

func (s *Solver) raw(text string) {
	if s.log != nil {
		io.WriteString(s.log, text)
	}
	io.WriteString(s.in, text)
}

// sync sends an echo marker and returns all output lines before it.  A solver
// that does not answer within its own timeout plus a grace period is killed
// (z3's :timeout is not honoured inside some theory combinations); the
// solver is then Dead and every later answer is Unknown.
func (s *Solver) sync() []string {
	if s.Dead {
		return []string{"unknown"}
	}
	s.seq++
	marker := fmt.Sprintf("<<sync %d>>", s.seq)
	s.raw("(echo \"" + marker + "\")\n")
	var lines []string
	deadline := time.After(time.Duration(s.timeout)*time.Millisecond + 3*time.Second)
	for {
		select {
		case line, ok := <-s.lines:
			if !ok {
				s.Errors = append(s.Errors, "solver died")
				s.Dead = true
				return append(lines, "unknown")
			}
			line = strings.TrimRight(line, "\r\n")
			if strings.Contains(line, marker) {
				return lines
			}
			if line != "" {
				lines = append(lines, line)
			}
		case <-deadline:
			s.Dead = true
			s.cmd.Process.Kill()
			s.Timeouts++
			return []string{"unknown"}
		}
	}
}

func (s *Solver) ensure(text string) {
	for _, id := range identsIn(text) {
		if s.sent[id] {
			continue
		}
		d := lookupDecl(id)
		if d == nil {
			continue
		}
		s.sent[id] = true
		for _, dep := range d.deps {
			if !s.sent[dep] {
				s.ensureName(dep)
			}
		}
		s.raw(d.text + "\n")
	}
}

func (s *Solver) ensureName(id string) {
	if s.sent[id] {
		return
	}
	d := lookupDecl(id)
	if d == nil {
		return
	}
	s.sent[id] = true
	for _, dep := range d.deps {
		s.ensureName(dep)
	}
	s.raw(d.text + "\n")
}

func (s *Solver) Push() {
	s.raw("(push 1)\n")
	s.level++
	s.frames = append(s.frames, nil)
}
func (s *Solver) Pop() {
	s.raw("(pop 1)\n")
	s.level--
	if len(s.frames) > 0 {
		s.frames = s.frames[:len(s.frames)-1]
	}
}
func (s *Solver) PopTo(level int) {
	for s.level > level {
		s.Pop()
	}
}

func (s *Solver) Assert(t *Term) {
	if t.S == "true" {
		return
	}
	s.ensure(t.S)
	s.raw("(assert " + t.S + ")\n")
	if len(s.frames) == 0 {
		s.frames = append(s.frames, nil)
	}
	s.frames[len(s.frames)-1] = append(s.frames[len(s.frames)-1], t.S)
}

// Check decides satisfiability of the current stack plus extra.
func (s *Solver) Check(extra ...*Term) SatResult {
	t0 := time.Now()
	s.Queries++
	n := 0
	for _, e := range extra {
		if e.S == "false" {
			return Unsat
		}
	}
	if len(extra) > 0 {
		s.Push()
		n = 1
		for _, e := range extra {
			s.Assert(e)
		}
	}
	s.raw("(check-sat)\n")
	lines := s.sync()
	if s.parseCheckQuiet(lines) == Unknown {
		// frames already include the pushed extra assertions
		if r, _ := s.fallback(nil); r != Unknown {
			if n > 0 {
				s.Pop()
			}
			s.Time += time.Since(t0)
			return r
		}
	}
	if n > 0 {
		s.Pop()
	}
	dt := time.Since(t0)
	s.Time += dt
	if dt > time.Duration(slowMs)*time.Millisecond && os.Getenv("GOSX_SLOW") != "" {
		ext := ""; if len(extra) > 0 { ext = trunc(extra[0].S, 150) }; fmt.Fprintf(os.Stderr, "SLOW query %.1fs result=%v nframes=%d extra=%s\n", dt.Seconds(), lines, s.nAsserts(), ext)
	}
	return s.parseCheck(lines)
}

func (s *Solver) parseCheckQuiet(lines []string) SatResult {
	for _, l := range lines {
		switch {
		case l == "sat":
			return Sat
		case l == "unsat":
			return Unsat
		}
	}
	return Unknown
}

// fallback re-decides the current assertion stack in a fresh process of the
// other installed z3 (5.1.0) and, failing that, cvc5, with a longer timeout.
// Used only when the primary solver answered unknown or had to be killed; an
// answer from the fallback is a normal verdict.
func (s *Solver) fallback(vals []*Term) (SatResult, []string) {
	if os.Getenv("GOSX_NOFALLBACK") != "" {
		return Unknown, nil
	}
	s.Fallbacks++
	var asserts []string
	for _, f := range s.frames {
		asserts = append(asserts, f...)
	}
	var decls []string
	seen := map[string]bool{}
	var need func(id string)
	need = func(id string) {
		if seen[id] {
			return
		}
		seen[id] = true
		d := lookupDecl(id)
		if d == nil {
			return
		}
		for _, dep := range d.deps {
			need(dep)
		}
		decls = append(decls, d.text)
	}
	for _, a := range asserts {
		for _, id := range identsIn(a) {
			need(id)
		}
	}
	for _, v := range vals {
		for _, id := range identsIn(v.S) {
			need(id)
		}
	}
	var sb strings.Builder
	for _, d := range decls {
		sb.WriteString(d)
		sb.WriteByte('\n')
	}
	for _, a := range asserts {
		sb.WriteString("(assert " + a + ")\n")
	}
	sb.WriteString("(check-sat)\n")
	if len(vals) > 0 {
		sb.WriteString("(get-value (")
		for _, v := range vals {
			sb.WriteString(v.S + " ")
		}
		sb.WriteString("))\n")
	}
	script := sb.String()
	try := func(name string, args ...string) (SatResult, []string) {
		ctx, cancel := context.WithTimeout(context.Background(), 150*time.Second)
		defer cancel()
		cmd := exec.CommandContext(ctx, name, args...)
		cmd.Stdin = strings.NewReader(script)
		out, _ := cmd.Output()
		text := string(out)
		if strings.Contains(text, "(error") {
			return Unknown, nil
		}
		lines := strings.SplitN(strings.TrimSpace(text), "\n", 2)
		switch strings.TrimSpace(lines[0]) {
		case "unsat":
			return Unsat, nil
		case "sat":
			if len(vals) == 0 {
				return Sat, nil
			}
			if len(lines) < 2 {
				return Unknown, nil
			}
			pairs := parseGetValue(lines[1])
			if len(pairs) != len(vals) {
				return Unknown, nil
			}
			return Sat, pairs
		}
		return Unknown, nil
	}
	if r, v := try("z3-new", "-in", "-smt2", "-T:120"); r != Unknown {
		return r, v
	}
	if len(vals) == 0 {
		if r, v := try("cvc5", "--lang=smt2", "--strings-exp", "--tlimit=120000"); r != Unknown {
			return r, v
		}
	}
	return Unknown, nil
}

func (s *Solver) parseCheck(lines []string) SatResult {
	res := Unknown
	got := false
	for _, l := range lines {
		switch {
		case l == "sat":
			res, got = Sat, true
		case l == "unsat":
			res, got = Unsat, true
		case l == "unknown":
			res, got = Unknown, true
		case strings.Contains(l, "(error"):
			s.Errors = append(s.Errors, l)
			return Unknown
		}
	}
	if !got {
		s.Errors = append(s.Errors, "no check-sat answer: "+strings.Join(lines, " | "))
		return Unknown
	}
	return res
}

// CheckModel is like Check but on Sat also evaluates the given terms.
func (s *Solver) CheckModel(vals []*Term, extra ...*Term) (SatResult, []string) {
	t0 := time.Now()
	s.Queries++
	for _, e := range extra {
		if e.S == "false" {
			return Unsat, nil
		}
	}
	s.Push()
	for _, e := range extra {
		s.Assert(e)
	}
	for _, v := range vals {
		s.ensure(v.S)
	}
	s.raw("(check-sat)\n")
	lines := s.sync()
	if s.parseCheckQuiet(lines) == Unknown {
		if r, v := s.fallback(vals); r != Unknown {
			s.Pop()
			s.Time += time.Since(t0)
			return r, v
		}
	}
	r := s.parseCheck(lines)
	var out []string
	if r == Sat && len(vals) > 0 {
		out = make([]string, len(vals))
		// batch get-value in chunks
		const chunk = 64
		for i := 0; i < len(vals); i += chunk {
			j := i + chunk
			if j > len(vals) {
				j = len(vals)
			}
			var sb strings.Builder
			sb.WriteString("(get-value (")
			for _, v := range vals[i:j] {
				sb.WriteString(v.S)
				sb.WriteByte(' ')
			}
			sb.WriteString("))\n")
			s.raw(sb.String())
			resp := strings.Join(s.sync(), "\n")
			if strings.Contains(resp, "(error") {
				s.Errors = append(s.Errors, resp)
				r = Unknown
				break
			}
			pairs := parseGetValue(resp)
			if len(pairs) != j-i {
				s.Errors = append(s.Errors, fmt.Sprintf("get-value: expected %d pairs, got %d: %s", j-i, len(pairs), resp))
				r = Unknown
				break
			}
			copy(out[i:j], pairs)
		}
	}
	s.Pop()
	s.Time += time.Since(t0)
	return r, out
}

// parseGetValue parses "((t1 v1) (t2 v2) ...)" and returns the value texts.
func parseGetValue(resp string) []string {
	sx, _ := parseSexp(resp, 0)
	lst, ok := sx.([]interface{})
	if !ok {
		return nil
	}
	var out []string
	for _, p := range lst {
		pl, ok := p.([]interface{})
		if !ok || len(pl) != 2 {
			return nil
		}
		out = append(out, sexpString(pl[1]))
	}
	return out
}

func parseSexp(s string, i int) (interface{}, int) {
	for i < len(s) && (s[i] == ' ' || s[i] == '\n' || s[i] == '\t' || s[i] == '\r') {
		i++
	}
	if i >= len(s) {
		return nil, i
	}
	if s[i] == '(' {
		i++
		var lst []interface{}
		for {
			for i < len(s) && (s[i] == ' ' || s[i] == '\n' || s[i] == '\t' || s[i] == '\r') {
				i++
			}
			if i >= len(s) {
				return lst, i
			}
			if s[i] == ')' {
				return lst, i + 1
			}
			var e interface{}
			e, i = parseSexp(s, i)
			lst = append(lst, e)
		}
	}
	if s[i] == '"' {
		j := i + 1
		for j < len(s) {
			if s[j] == '"' {
				if j+1 < len(s) && s[j+1] == '"' {
					j += 2
					continue
				}
				break
			}
			j++
		}
		return s[i : j+1], j + 1
	}
	if s[i] == '|' {
		j := strings.IndexByte(s[i+1:], '|')
		return s[i : i+j+2], i + j + 2
	}
	j := i
	for j < len(s) && s[j] != '(' && s[j] != ')' && s[j] != ' ' && s[j] != '\n' && s[j] != '\t' && s[j] != '\r' {
		j++
	}
	return s[i:j], j
}

func sexpString(x interface{}) string {
	switch x := x.(type) {
	case string:
		return x
	case []interface{}:
		parts := make([]string, len(x))
		for i, e := range x {
			parts[i] = sexpString(e)
		}
		return "(" + strings.Join(parts, " ") + ")"
	}
	return ""
}

// parseBVValue parses "#x.." / "#b.." / "(_ bvN W)" into a uint64.
func parseBVValue(v string) (uint64, bool) {
	v = strings.TrimSpace(v)
	var r uint64
	switch {
	case strings.HasPrefix(v, "#x"):
		if len(v)-2 > 16 {
			return 0, false
		}
		_, err := fmt.Sscanf(v[2:], "%x", &r)
		return r, err == nil
	case strings.HasPrefix(v, "#b"):
		for _, c := range v[2:] {
			r = r<<1 | uint64(c-'0')
		}
		return r, true
	case strings.HasPrefix(v, "(_ bv"):
		_, err := fmt.Sscanf(v, "(_ bv%d", &r)
		return r, err == nil
	}
	return 0, false
}

// parseSeqValue parses a model value of sort (Seq (_ BitVec 8)).
func parseSeqValue(v string) ([]byte, bool) {
	sx, _ := parseSexp(v, 0)
	var out []byte
	var walk func(x interface{}) bool
	walk = func(x interface{}) bool {
		switch x := x.(type) {
		case string:
			return false
		case []interface{}:
			if len(x) == 0 {
				return false
			}
			head, _ := x[0].(string)
			switch head {
			case "as": // (as seq.empty ...)
				return true
			case "seq.unit":
				b, ok := parseBVValue(sexpString(x[1]))
				if !ok {
					return false
				}
				out = append(out, byte(b))
				return true
			case "seq.++":
				for _, e := range x[1:] {
					if !walk(e) {
						return false
					}
				}
				return true
			}
		}
		return false
	}
	if !walk(sx) {
		return nil, false
	}
	return out, true
}

func (s *Solver) nAsserts() int {
	n := 0
	for _, f := range s.frames {
		n += len(f)
	}
	return n
}

var slowMs = func() int {
	n := 300
	if v := os.Getenv("GOSX_SLOW"); v != "" {
		fmt.Sscanf(v, "%d", &n)
	}
	return n
}()
