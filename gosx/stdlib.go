package main

import (
	"bytes"
	"encoding/hex"
	"fmt"
	"go/token"
	"go/types"
	"path"
	"path/filepath"
	"reflect"
	"strconv"
	"strings"
	"unicode/utf8"

	"golang.org/x/tools/go/ssa"
)

// ---------- native bridge for pure functions on concrete data ----------

var errSymbolic = fmt.Errorf("symbolic")

func toNative(v Value, t reflect.Type) (reflect.Value, error) {
	switch t.Kind() {
	case reflect.String:
		s, ok := v.(string)
		if !ok {
			return reflect.Value{}, errSymbolic
		}
		return reflect.ValueOf(s).Convert(t), nil
	case reflect.Bool:
		b, ok := v.(bool)
		if !ok {
			return reflect.Value{}, errSymbolic
		}
		return reflect.ValueOf(b), nil
	case reflect.Int, reflect.Int8, reflect.Int16, reflect.Int32, reflect.Int64:
		i, ok := v.(Int)
		if !ok || i.T != nil {
			return reflect.Value{}, errSymbolic
		}
		r := reflect.New(t).Elem()
		r.SetInt(i.S64())
		return r, nil
	case reflect.Uint, reflect.Uint8, reflect.Uint16, reflect.Uint32, reflect.Uint64, reflect.Uintptr:
		i, ok := v.(Int)
		if !ok || i.T != nil {
			return reflect.Value{}, errSymbolic
		}
		r := reflect.New(t).Elem()
		r.SetUint(i.C)
		return r, nil
	case reflect.Float64, reflect.Float32:
		f, ok := v.(float64)
		if !ok {
			return reflect.Value{}, errSymbolic
		}
		r := reflect.New(t).Elem()
		r.SetFloat(f)
		return r, nil
	case reflect.Slice:
		s, ok := v.(Slice)
		if !ok {
			return reflect.Value{}, errSymbolic
		}
		if s == nil {
			return reflect.Zero(t), nil
		}
		r := reflect.MakeSlice(t, len(s), len(s))
		for i := range s {
			e, err := toNative(s[i], t.Elem())
			if err != nil {
				return reflect.Value{}, err
			}
			r.Index(i).Set(e)
		}
		return r, nil
	}
	return reflect.Value{}, fmt.Errorf("toNative: unsupported kind %v", t.Kind())
}

func (ex *Exec) fromNative(r reflect.Value) Value {
	switch r.Kind() {
	case reflect.String:
		return r.String()
	case reflect.Bool:
		return r.Bool()
	case reflect.Int, reflect.Int8, reflect.Int16, reflect.Int32, reflect.Int64:
		return CInt(uint64(r.Int()), uint8(r.Type().Bits()))
	case reflect.Uint, reflect.Uint8, reflect.Uint16, reflect.Uint32, reflect.Uint64, reflect.Uintptr:
		return CInt(r.Uint(), uint8(r.Type().Bits()))
	case reflect.Float32, reflect.Float64:
		return r.Float()
	case reflect.Slice:
		if r.IsNil() {
			return Slice(nil)
		}
		out := make(Slice, r.Len())
		for i := range out {
			out[i] = ex.fromNative(r.Index(i))
		}
		return out
	case reflect.Array:
		out := make(Array, r.Len())
		for i := range out {
			out[i] = ex.fromNative(r.Index(i))
		}
		return out
	case reflect.Interface:
		if r.IsNil() {
			return Iface{}
		}
		if err, ok := r.Interface().(error); ok {
			return ex.newError(err.Error())
		}
	}
	panic(fmt.Sprintf("fromNative: unsupported %v", r.Type()))
}

// newError allocates an *errors.errorString.
func (ex *Exec) newError(msg Value) Value {
	ep := ex.eng.ssaPkgs["errors"]
	t := ep.Type("errorString").Object().Type()
	var cell Value = Struct{msg}
	return Iface{T: types.NewPointer(t), V: &cell}
}

// native registers fn as the implementation of name when all args are
// concrete; otherwise falls through to sym (or SSA interpretation if sym nil).
func (e *Engine) native(name string, fn interface{}, sym ExternFn) {
	rf := reflect.ValueOf(fn)
	rt := rf.Type()
	e.externs[name] = func(ex *Exec, caller *frame, f *ssa.Function, args []Value) Value {
		in := make([]reflect.Value, len(args))
		ok := len(args) == rt.NumIn()
		if ok {
			for i, a := range args {
				v, err := toNative(a, rt.In(i))
				if err != nil {
					ok = false
					break
				}
				in[i] = v
			}
		}
		if !ok {
			if sym != nil {
				return sym(ex, caller, f, args)
			}
			return ex.interpretAnyway(caller, f, args)
		}
		var out []reflect.Value
		if rt.IsVariadic() {
			out = rf.CallSlice(in)
		} else {
			out = rf.Call(in)
		}
		switch len(out) {
		case 0:
			return nil
		case 1:
			return ex.fromNative(out[0])
		}
		t := make(Tuple, len(out))
		for i, o := range out {
			t[i] = ex.fromNative(o)
		}
		return t
	}
}

// interpretAnyway runs the SSA body of an extern-registered function.
func (ex *Exec) interpretAnyway(caller *frame, fn *ssa.Function, args []Value) Value {
	if fn.Blocks == nil && fn.Pkg != nil {
		ex.eng.buildPkg(fn.Pkg)
	}
	if fn.Blocks == nil {
		ex.unsupported("symbolic arguments to native-only function " + fn.String())
	}
	name := fn.String()
	saved := ex.eng.externs[name]
	_ = saved
	return ex.callBody(caller, fn, args)
}

// callBody interprets fn's SSA ignoring extern registration.
func (ex *Exec) callBody(caller *frame, fn *ssa.Function, args []Value) Value {
	fr := &frame{ex: ex, caller: caller, fn: fn}
	ex.depth++
	if ex.depth > maxDepth {
		ex.end("budget", "recursion depth exceeded")
	}
	saved := ex.curFrame
	ex.curFrame = fr
	defer func() { ex.depth--; ex.curFrame = saved }()
	fr.env = make(map[ssa.Value]Value, 16)
	fr.block = fn.Blocks[0]
	fr.locals = make([]Value, len(fn.Locals))
	for i, l := range fn.Locals {
		fr.locals[i] = zero(deref(l.Type()))
		fr.env[l] = &fr.locals[i]
	}
	for i, p := range fn.Params {
		fr.env[p] = args[i]
	}
	for fr.block != nil {
		ex.runFrame(fr)
	}
	return fr.result
}

// ---------- method lookup by name on a dynamic type ----------

func (ex *Exec) methodByName(t types.Type, name string) *ssa.Function {
	ms := ex.eng.prog.MethodSets.MethodSet(t)
	for i := 0; i < ms.Len(); i++ {
		sel := ms.At(i)
		if sel.Obj().Name() == name {
			return ex.eng.prog.MethodValue(sel)
		}
	}
	return nil
}

func (ex *Exec) callMethod(recv Iface, name string, args ...Value) (Value, bool) {
	if recv.T == nil {
		return nil, false
	}
	m := ex.methodByName(recv.T, name)
	if m == nil {
		return nil, false
	}
	return ex.callSSA(ex.curFrame, token.NoPos, m, append([]Value{recv.V}, args...), nil), true
}

func isErrorResult(m *ssa.Function) bool {
	r := m.Signature.Results()
	return r.Len() == 1 && types.Identical(r.At(0).Type(), types.Universe.Lookup("error").Type())
}

// errorsIs implements errors.Is structurally.
func (ex *Exec) errorsIs(err, target Iface) bool {
	if err.T == nil || target.T == nil {
		return err.T == nil && target.T == nil
	}
	cmp := types.Comparable(target.T)
	for depth := 0; depth < 64; depth++ {
		if cmp && types.Identical(err.T, target.T) {
			if ex.branch(ex.eqVal(err.T, err.V, target.V)) {
				return true
			}
		}
		if m := ex.methodByName(err.T, "Is"); m != nil && m.Signature.Params().Len() == 1 && m.Signature.Results().Len() == 1 && isBoolT(m.Signature.Results().At(0).Type()) {
			r := ex.callSSA(ex.curFrame, token.NoPos, m, []Value{err.V, target}, nil)
			if ex.branch(r) {
				return true
			}
		}
		m := ex.methodByName(err.T, "Unwrap")
		if m == nil || m.Signature.Params().Len() != 0 || m.Signature.Results().Len() != 1 {
			return false
		}
		r := ex.callSSA(ex.curFrame, token.NoPos, m, []Value{err.V}, nil)
		switch r := r.(type) {
		case Iface:
			if r.T == nil {
				return false
			}
			err = r
		case Slice:
			for _, e := range r {
				ei := e.(Iface)
				if ei.T != nil && ex.errorsIs(ei, target) {
					return true
				}
			}
			return false
		default:
			return false
		}
	}
	return false
}

// errorsAs implements errors.As: target is *T.
func (ex *Exec) errorsAs(err Iface, target Iface) bool {
	if target.T == nil {
		ex.rtPanic("errors: target cannot be nil")
	}
	pt, ok := target.T.Underlying().(*types.Pointer)
	if !ok {
		ex.rtPanic("errors: target must be a non-nil pointer")
	}
	tp := target.V.(*Value)
	if tp == nil {
		ex.rtPanic("errors: target must be a non-nil pointer")
	}
	elem := pt.Elem()
	var walk func(err Iface, depth int) bool
	walk = func(err Iface, depth int) bool {
		for ; depth < 64 && err.T != nil; depth++ {
			if it, isI := elem.Underlying().(*types.Interface); isI {
				if m, _ := types.MissingMethod(err.T, it, true); m == nil {
					*tp = err
					return true
				}
			} else if types.Identical(err.T, elem) {
				*tp = copyVal(err.V)
				return true
			}
			if m := ex.methodByName(err.T, "As"); m != nil && m.Signature.Params().Len() == 1 {
				r := ex.callSSA(ex.curFrame, token.NoPos, m, []Value{err.V, target}, nil)
				if ex.branch(r) {
					return true
				}
			}
			m := ex.methodByName(err.T, "Unwrap")
			if m == nil || m.Signature.Params().Len() != 0 || m.Signature.Results().Len() != 1 {
				return false
			}
			r := ex.callSSA(ex.curFrame, token.NoPos, m, []Value{err.V}, nil)
			switch r := r.(type) {
			case Iface:
				err = r
			case Slice:
				for _, e := range r {
					if walk(e.(Iface), depth+1) {
						return true
					}
				}
				return false
			default:
				return false
			}
		}
		return false
	}
	return walk(err, 0)
}

// ---------- fmt ----------

func (ex *Exec) nativeScalar(v Value, t types.Type) (interface{}, bool) {
	switch x := v.(type) {
	case Int:
		if x.T != nil {
			return nil, false
		}
		_, signed, _ := intWidth(t)
		if signed {
			return x.S64(), true
		}
		if x.W == 8 {
			return uint8(x.C), true
		}
		return x.C, true
	case string:
		return x, true
	case bool:
		return x, true
	case float64:
		return x, true
	case Slice:
		if sl, ok := t.Underlying().(*types.Slice); ok {
			if b, ok := sl.Elem().Underlying().(*types.Basic); ok && b.Kind() == types.Uint8 {
				if x == nil {
					return []byte(nil), true
				}
				bs, ok := concBytes(x)
				return bs, ok
			}
			if b, ok := sl.Elem().Underlying().(*types.Basic); ok && b.Kind() == types.String {
				out := make([]string, len(x))
				for i, e := range x {
					s, ok := e.(string)
					if !ok {
						return nil, false
					}
					out[i] = s
				}
				return out, true
			}
		}
	case Array:
		if at, ok := t.Underlying().(*types.Array); ok {
			if b, ok := at.Elem().Underlying().(*types.Basic); ok && b.Kind() == types.Uint8 {
				bs, ok := concBytes(x)
				return bs, ok
			}
		}
	}
	return nil, false
}

// fmtOperand renders one operand for verb; returns a string Value.
func (ex *Exec) fmtOperand(flags string, verb byte, op Value) Value {
	itf, ok := op.(Iface)
	if !ok {
		return "%!" + string(verb) + "(BADOPERAND)"
	}
	if itf.T == nil {
		if verb == 'T' {
			return "<nil>"
		}
		if verb == 'v' || verb == 's' || verb == 'w' {
			if verb == 's' {
				return "%!s(<nil>)"
			}
			return "<nil>"
		}
		return "%!" + string(verb) + "(<nil>)"
	}
	if verb == 'T' {
		return itf.T.String()
	}
	if verb == 'w' {
		verb = 'v'
	}
	// error / Stringer
	if verb == 'v' || verb == 's' || verb == 'q' {
		if !strings.Contains(flags, "#") {
			if m := ex.methodByName(itf.T, "Error"); m != nil && m.Signature.Params().Len() == 0 {
				if p, isP := itf.V.(*Value); isP && p == nil {
					return "<nil>"
				}
				s := ex.callSSA(ex.curFrame, token.NoPos, m, []Value{itf.V}, nil)
				return ex.quoteIf(verb, s)
			}
			if m := ex.methodByName(itf.T, "String"); m != nil && m.Signature.Params().Len() == 0 && m.Signature.Results().Len() == 1 && isString(m.Signature.Results().At(0).Type()) {
				if p, isP := itf.V.(*Value); isP && p == nil {
					return "<nil>"
				}
				s := ex.callSSA(ex.curFrame, token.NoPos, m, []Value{itf.V}, nil)
				return ex.quoteIf(verb, s)
			}
		}
	}
	if n, ok := ex.nativeScalar(itf.V, itf.T); ok {
		return fmt.Sprintf("%"+flags+string(verb), n)
	}
	// symbolic scalars
	switch x := itf.V.(type) {
	case Int:
		_, signed, _ := intWidth(itf.T)
		switch verb {
		case 'd', 'v':
			return SymStr{T: ex.itoa(x, signed)}
		case 'x', 'X':
			return SymStr{T: ex.ufStr("hexint", x.Term())}
		}
		return SymStr{T: ex.ufStr("fmtint_"+string(verb), x.Term())}
	case SymStr:
		if verb == 'x' || verb == 'X' {
			if x.B != nil {
				return hexBytes(x.B, verb == 'X')
			}
			return SymStr{T: ex.hexOf(x.T)}
		}
		return ex.quoteIf(verb, x)
	case SymBool:
		return SymStr{T: Ite(x.T, SeqOfString("true"), SeqOfString("false"))}
	case OpaqueFloat:
		return SymStr{T: ex.fresh("fmtfloat", SSeq)}
	case Slice:
		if sl, ok := itf.T.Underlying().(*types.Slice); ok {
			if b, ok := sl.Elem().Underlying().(*types.Basic); ok && b.Kind() == types.Uint8 {
				switch verb {
				case 's':
					return ex.bytesToStr(x)
				case 'x', 'X':
					return hexBytes(x, verb == 'X')
				}
				return SymStr{T: ex.ufStr("fmtbytes_"+string(verb), ex.seqOfBytes(x))}
			}
		}
	case Array:
		if at, ok := itf.T.Underlying().(*types.Array); ok {
			if b, ok := at.Elem().Underlying().(*types.Basic); ok && b.Kind() == types.Uint8 {
				switch verb {
				case 'x', 'X':
					return hexBytes(x, verb == 'X')
				}
				return SymStr{T: ex.ufStr("fmtbytes_"+string(verb), ex.seqOfBytes(x))}
			}
		}
	}
	// anything else: an opaque rendering determined by the type
	return "<" + itf.T.String() + ">"
}

func (ex *Exec) quoteIf(verb byte, s Value) Value {
	if verb != 'q' {
		return s
	}
	if cs, ok := s.(string); ok {
		return strconv.Quote(cs)
	}
	return SymStr{T: SeqConcat(SeqOfString("\""), strTerm(s), SeqOfString("\""))}
}

func (ex *Exec) ufStr(name string, arg *Term) *Term {
	f := UF(name, []Sort{arg.Sort}, SSeq)
	res := App(f, SSeq, arg)
	ex.ufAxiomInjective(name, f, arg, res)
	return res
}

// itoa: decimal rendering as an injective uninterpreted function with the
// facts the repo code can observe (non-empty, no '/', no '=' etc.).
func (ex *Exec) itoa(x Int, signed bool) *Term {
	name := "itoa"
	if signed {
		name = "itoas"
	}
	t := ex.toW(x, 64, signed).Term()
	f := UF(name, []Sort{SBV(64)}, SSeq)
	res := App(f, SSeq, t)
	seen := false
	for _, a := range ex.ufApps[name] {
		if a.arg.S == t.S {
			seen = true
		}
	}
	if !seen {
		ex.ufAxiomInjective(name, f, t, res)
		ln := "(seq.len " + res.S + ")"
		ex.addPC(mk("(and (>= "+ln+" 1) (<= "+ln+" 20))", SBool))
		ex.addPC(Not(SeqContains(res, SeqOfString("/"))))
	}
	return res
}

// hexBytes renders explicit bytes as an explicit lower-case hex string.
func hexBytes(bs []Value, upper bool) Value {
	out := make([]Value, 0, 2*len(bs))
	alpha := uint64(0x57)
	if upper {
		alpha = 0x37
	}
	nib := func(n *Term) Value {
		// n: 8-bit term holding a nibble
		return SInt(Ite(Bin("bvult", SBool, n, BVConst(10, 8)), Bin("bvadd", SBV(8), n, BVConst(0x30, 8)), Bin("bvadd", SBV(8), n, BVConst(alpha, 8))))
	}
	const digits = "0123456789abcdef"
	const udigits = "0123456789ABCDEF"
	for _, b := range bs {
		bi := b.(Int)
		if bi.T == nil {
			d := digits
			if upper {
				d = udigits
			}
			out = append(out, CInt(uint64(d[bi.C>>4]), 8), CInt(uint64(d[bi.C&15]), 8))
			continue
		}
		hi := ZeroExt(4, Extract(7, 4, bi.T))
		lo := ZeroExt(4, Extract(3, 0, bi.T))
		out = append(out, nib(hi), nib(lo))
	}
	return mkStrBytes(out)
}

func (ex *Exec) hexOf(seq *Term) *Term {
	f := UF("hex", []Sort{SSeq}, SSeq)
	res := App(f, SSeq, seq)
	seen := false
	for _, a := range ex.ufApps["hex"] {
		if a.arg.S == seq.S {
			seen = true
		}
	}
	if !seen {
		ex.ufAxiomInjective("hex", f, seq, res)
		ex.addPC(mk("(= (seq.len "+res.S+") (* 2 (seq.len "+seq.S+")))", SBool))
		ex.addPC(Not(SeqContains(res, SeqOfString("/"))))
	}
	return res
}

func concatStr(parts []Value) Value {
	allc := true
	for _, p := range parts {
		if _, ok := p.(string); !ok {
			allc = false
		}
	}
	if allc {
		var sb strings.Builder
		for _, p := range parts {
			sb.WriteString(p.(string))
		}
		return sb.String()
	}
	var all []Value
	explicit := true
	for _, p := range parts {
		b, ok := strBytesOf(p)
		if !ok {
			explicit = false
			break
		}
		all = append(all, b...)
	}
	if explicit {
		return mkStrBytes(all)
	}
	ts := make([]*Term, len(parts))
	for i, p := range parts {
		ts[i] = strTerm(p)
	}
	return SymStr{T: SeqConcat(ts...)}
}

// sprintf renders format with operands; returns the string and the %w operands.
func (ex *Exec) sprintf(format string, ops []Value) (Value, []Value) {
	var parts []Value
	var wrapped []Value
	argi := 0
	i := 0
	lit := 0
	for i < len(format) {
		if format[i] != '%' {
			i++
			continue
		}
		if i > lit {
			parts = append(parts, format[lit:i])
		}
		j := i + 1
		for j < len(format) && strings.IndexByte("+-# 0123456789.*", format[j]) >= 0 {
			j++
		}
		if j >= len(format) {
			parts = append(parts, "%!(NOVERB)")
			i = j
			lit = j
			break
		}
		verb := format[j]
		flags := format[i+1 : j]
		if verb == '%' {
			parts = append(parts, "%")
		} else if argi >= len(ops) {
			parts = append(parts, "%!"+string(verb)+"(MISSING)")
		} else {
			if verb == 'w' {
				wrapped = append(wrapped, ops[argi])
			}
			parts = append(parts, ex.fmtOperand(flags, verb, ops[argi]))
			argi++
		}
		i = j + 1
		lit = i
	}
	if lit < len(format) {
		parts = append(parts, format[lit:])
	}
	if argi < len(ops) {
		parts = append(parts, "%!(EXTRA)")
	}
	return concatStr(parts), wrapped
}

func (ex *Exec) sprint(ops []Value, ln bool) Value {
	var parts []Value
	for i, o := range ops {
		if i > 0 && ln {
			parts = append(parts, " ")
		}
		parts = append(parts, ex.fmtOperand("", 'v', o))
	}
	if ln {
		parts = append(parts, "\n")
	}
	return concatStr(parts)
}

func (ex *Exec) errorf(format string, ops []Value) Value {
	msg, wrapped := ex.sprintf(format, ops)
	fp := ex.eng.ssaPkgs["fmt"]
	var ws []Value
	for _, w := range wrapped {
		if wi, ok := w.(Iface); ok && wi.T != nil {
			// only operands that are errors count
			if m := ex.methodByName(wi.T, "Error"); m != nil {
				ws = append(ws, wi)
			}
		}
	}
	switch len(ws) {
	case 0:
		return ex.newError(msg)
	case 1:
		t := fp.Type("wrapError").Object().Type()
		var cell Value = Struct{msg, ws[0]}
		return Iface{T: types.NewPointer(t), V: &cell}
	default:
		t := fp.Type("wrapErrors").Object().Type()
		var cell Value = Struct{msg, Slice(ws)}
		return Iface{T: types.NewPointer(t), V: &cell}
	}
}

// bytesEq compares two explicit byte strings as whole bit-vectors (adjacent
// extracts of one term are fused, so two digests compare as one equality).
func (ex *Exec) bytesEq(p, q []Value) Value {
	if len(p) != len(q) {
		return false
	}
	if len(p) == 0 {
		return true
	}
	pc, pok := concBytes(p)
	qc, qok := concBytes(q)
	if pok && qok {
		return bytes.Equal(pc, qc)
	}
	// split at literal mismatches early
	for i := range p {
		a, b := p[i].(Int), q[i].(Int)
		if a.T == nil && b.T == nil && a.C != b.C {
			return false
		}
	}
	return mkBool(ex.bytesEqTerm(p, q))
}

// ---------- registration ----------

type lockState struct {
	w bool
	r int
}

func registerStdlib(e *Engine) {
	x := e.externs
	// ----- sync -----
	lock := func(ex *Exec, p *Value) *lockState {
		ls, _ := ex.side[p].(*lockState)
		if ls == nil {
			ls = &lockState{}
			ex.side[p] = ls
		}
		return ls
	}
	x["(*sync.Mutex).Lock"] = func(ex *Exec, c *frame, f *ssa.Function, a []Value) Value {
		ls := lock(ex, a[0].(*Value))
		if ls.w {
			if !ex.inThreads() {
				ex.end("blocked", "deadlock: Lock of a held sync.Mutex @ "+ex.stack())
			}
			ex.blockOn(func() bool { return !ls.w }, "Lock of a held sync.Mutex")
		}
		ls.w = true
		return nil
	}
	x["(*sync.Mutex).TryLock"] = func(ex *Exec, c *frame, f *ssa.Function, a []Value) Value {
		ls := lock(ex, a[0].(*Value))
		if ls.w {
			return false
		}
		ls.w = true
		return true
	}
	x["(*sync.Mutex).Unlock"] = func(ex *Exec, c *frame, f *ssa.Function, a []Value) Value {
		ls := lock(ex, a[0].(*Value))
		if !ls.w {
			ex.rtPanic("fatal error: sync: unlock of unlocked mutex")
		}
		ls.w = false
		return nil
	}
	x["(*sync.RWMutex).Lock"] = func(ex *Exec, c *frame, f *ssa.Function, a []Value) Value {
		ls := lock(ex, a[0].(*Value))
		if ls.w || ls.r > 0 {
			if !ex.inThreads() {
				ex.end("blocked", "deadlock: Lock of a held sync.RWMutex @ "+ex.stack())
			}
			ex.blockOn(func() bool { return !ls.w && ls.r == 0 }, "Lock of a held sync.RWMutex")
		}
		ls.w = true
		return nil
	}
	x["(*sync.RWMutex).Unlock"] = func(ex *Exec, c *frame, f *ssa.Function, a []Value) Value {
		ls := lock(ex, a[0].(*Value))
		if !ls.w {
			ex.rtPanic("fatal error: sync: Unlock of unlocked RWMutex")
		}
		ls.w = false
		return nil
	}
	x["(*sync.RWMutex).RLock"] = func(ex *Exec, c *frame, f *ssa.Function, a []Value) Value {
		ls := lock(ex, a[0].(*Value))
		if ls.w {
			if !ex.inThreads() {
				ex.end("blocked", "deadlock: RLock of a write-held sync.RWMutex @ "+ex.stack())
			}
			ex.blockOn(func() bool { return !ls.w }, "RLock of a write-held sync.RWMutex")
		}
		ls.r++
		return nil
	}
	x["(*sync.RWMutex).RUnlock"] = func(ex *Exec, c *frame, f *ssa.Function, a []Value) Value {
		ls := lock(ex, a[0].(*Value))
		if ls.r == 0 {
			ex.rtPanic("fatal error: sync: RUnlock of unlocked RWMutex")
		}
		ls.r--
		return nil
	}
	x["(*sync.Once).Do"] = func(ex *Exec, c *frame, f *ssa.Function, a []Value) Value {
		p := a[0].(*Value)
		if done, _ := ex.side[p].(bool); done {
			return nil
		}
		ex.side[p] = true
		ex.call(c, token.NoPos, a[1], nil)
		return nil
	}
	x["(*sync.WaitGroup).Add"] = externNoop
	x["(*sync.WaitGroup).Done"] = externNoop
	x["(*sync.WaitGroup).Wait"] = externNoop
	x["(*sync.WaitGroup).Go"] = func(ex *Exec, c *frame, f *ssa.Function, a []Value) Value {
		ex.call(c, token.NoPos, a[1], nil)
		return nil
	}
	x["(*sync.Pool).Get"] = func(ex *Exec, c *frame, f *ssa.Function, a []Value) Value {
		p := ex.derefPtr(a[0], "pool")
		st := (*p).(Struct)
		// field "New" is the last field
		nf := st[len(st)-1]
		if fn, ok := nf.(*ssa.Function); ok && fn == nil {
			return Iface{}
		}
		return ex.call(c, token.NoPos, nf, nil)
	}
	x["(*sync.Pool).Put"] = externNoop

	// sync.Map as an association list keyed by interface values
	anyT := types.NewInterfaceType(nil, nil)
	smap := func(ex *Exec, p *Value) *Map {
		m, _ := ex.side[p].(*Map)
		if m == nil {
			m = &Map{KT: anyT}
			ex.side[p] = m
		}
		return m
	}
	x["(*sync.Map).Load"] = func(ex *Exec, c *frame, f *ssa.Function, a []Value) Value {
		m := smap(ex, a[0].(*Value))
		i := ex.mapFind(m, a[1])
		if i < 0 {
			return Tuple{Iface{}, false}
		}
		return Tuple{m.V[i], true}
	}
	x["(*sync.Map).Store"] = func(ex *Exec, c *frame, f *ssa.Function, a []Value) Value {
		ex.mapSet(smap(ex, a[0].(*Value)), a[1], a[2])
		return nil
	}
	x["(*sync.Map).LoadOrStore"] = func(ex *Exec, c *frame, f *ssa.Function, a []Value) Value {
		m := smap(ex, a[0].(*Value))
		i := ex.mapFind(m, a[1])
		if i >= 0 {
			return Tuple{m.V[i], true}
		}
		m.K = append(m.K, a[1])
		m.V = append(m.V, a[2])
		return Tuple{a[2], false}
	}
	x["(*sync.Map).LoadAndDelete"] = func(ex *Exec, c *frame, f *ssa.Function, a []Value) Value {
		m := smap(ex, a[0].(*Value))
		i := ex.mapFind(m, a[1])
		if i < 0 {
			return Tuple{Iface{}, false}
		}
		v := m.V[i]
		m.K = append(m.K[:i:i], m.K[i+1:]...)
		m.V = append(m.V[:i:i], m.V[i+1:]...)
		return Tuple{v, true}
	}
	x["(*sync.Map).Delete"] = func(ex *Exec, c *frame, f *ssa.Function, a []Value) Value {
		ex.mapDelete(smap(ex, a[0].(*Value)), a[1])
		return nil
	}
	x["(*sync.Map).Range"] = func(ex *Exec, c *frame, f *ssa.Function, a []Value) Value {
		m := smap(ex, a[0].(*Value))
		ks := append([]Value(nil), m.K...)
		vs := append([]Value(nil), m.V...)
		for i := range ks {
			r := ex.call(c, token.NoPos, a[1], []Value{ks[i], vs[i]})
			if !ex.branch(r) {
				break
			}
		}
		return nil
	}
	x["(*sync.Map).Clear"] = func(ex *Exec, c *frame, f *ssa.Function, a []Value) Value {
		m := smap(ex, a[0].(*Value))
		m.K, m.V = nil, nil
		return nil
	}

	// ----- sync/atomic -----
	for _, ty := range []string{"Int32", "Int64", "Uint32", "Uint64", "Uintptr"} {
		ty := ty
		x["sync/atomic.Load"+ty] = func(ex *Exec, c *frame, f *ssa.Function, a []Value) Value {
			return load(ex.derefPtr(a[0], "atomic"))
		}
		x["sync/atomic.Store"+ty] = func(ex *Exec, c *frame, f *ssa.Function, a []Value) Value {
			store(ex.derefPtr(a[0], "atomic"), a[1])
			return nil
		}
		x["sync/atomic.Add"+ty] = func(ex *Exec, c *frame, f *ssa.Function, a []Value) Value {
			p := ex.derefPtr(a[0], "atomic")
			t := f.Signature.Params().At(1).Type()
			nv := ex.binop(token.ADD, t, *p, a[1])
			*p = nv
			return nv
		}
		x["sync/atomic.Swap"+ty] = func(ex *Exec, c *frame, f *ssa.Function, a []Value) Value {
			p := ex.derefPtr(a[0], "atomic")
			old := *p
			*p = a[1]
			return old
		}
		x["sync/atomic.CompareAndSwap"+ty] = func(ex *Exec, c *frame, f *ssa.Function, a []Value) Value {
			p := ex.derefPtr(a[0], "atomic")
			t := f.Signature.Params().At(1).Type()
			if ex.branch(ex.eqVal(t, *p, a[1])) {
				*p = a[2]
				return true
			}
			return false
		}
		x["sync/atomic.And"+ty] = func(ex *Exec, c *frame, f *ssa.Function, a []Value) Value {
			p := ex.derefPtr(a[0], "atomic")
			old := *p
			*p = ex.binop(token.AND, f.Signature.Params().At(1).Type(), *p, a[1])
			return old
		}
		x["sync/atomic.Or"+ty] = func(ex *Exec, c *frame, f *ssa.Function, a []Value) Value {
			p := ex.derefPtr(a[0], "atomic")
			old := *p
			*p = ex.binop(token.OR, f.Signature.Params().At(1).Type(), *p, a[1])
			return old
		}
	}
	x["sync/atomic.LoadPointer"] = func(ex *Exec, c *frame, f *ssa.Function, a []Value) Value {
		return load(ex.derefPtr(a[0], "atomic"))
	}
	x["sync/atomic.StorePointer"] = func(ex *Exec, c *frame, f *ssa.Function, a []Value) Value {
		store(ex.derefPtr(a[0], "atomic"), a[1])
		return nil
	}
	x["sync/atomic.SwapPointer"] = func(ex *Exec, c *frame, f *ssa.Function, a []Value) Value {
		p := ex.derefPtr(a[0], "atomic")
		old := *p
		*p = a[1]
		return old
	}
	x["sync/atomic.CompareAndSwapPointer"] = func(ex *Exec, c *frame, f *ssa.Function, a []Value) Value {
		p := ex.derefPtr(a[0], "atomic")
		if (*p).(UnsafePtr).P == a[1].(UnsafePtr).P {
			*p = a[2]
			return true
		}
		return false
	}
	x["(*sync/atomic.Value).Load"] = func(ex *Exec, c *frame, f *ssa.Function, a []Value) Value {
		p := ex.derefPtr(a[0], "atomic.Value")
		return (*p).(Struct)[0]
	}
	x["(*sync/atomic.Value).Store"] = func(ex *Exec, c *frame, f *ssa.Function, a []Value) Value {
		p := ex.derefPtr(a[0], "atomic.Value")
		if a[1].(Iface).T == nil {
			ex.rtPanic("sync/atomic: store of nil value into Value")
		}
		(*p).(Struct)[0] = a[1]
		return nil
	}

	// ----- errors -----
	x["errors.Is"] = func(ex *Exec, c *frame, f *ssa.Function, a []Value) Value {
		return ex.errorsIs(a[0].(Iface), a[1].(Iface))
	}
	x["errors.As"] = func(ex *Exec, c *frame, f *ssa.Function, a []Value) Value {
		return ex.errorsAs(a[0].(Iface), a[1].(Iface))
	}

	// ----- context -----
	x["context.WithValue"] = func(ex *Exec, c *frame, f *ssa.Function, a []Value) Value {
		parent := a[0].(Iface)
		if parent.T == nil {
			ex.rtPanic("cannot create context from nil parent")
		}
		if a[1].(Iface).T == nil {
			ex.rtPanic("nil key")
		}
		t := ex.eng.ssaPkgs["context"].Type("valueCtx").Object().Type()
		var cell Value = Struct{parent, a[1], a[2]}
		return Iface{T: types.NewPointer(t), V: &cell}
	}

	// ----- fmt -----
	x["fmt.Sprintf"] = func(ex *Exec, c *frame, f *ssa.Function, a []Value) Value {
		fs, ok := a[0].(string)
		if !ok {
			ex.unsupported("fmt.Sprintf with symbolic format")
		}
		s, _ := ex.sprintf(fs, a[1].(Slice))
		return s
	}
	x["fmt.Errorf"] = func(ex *Exec, c *frame, f *ssa.Function, a []Value) Value {
		fs, ok := a[0].(string)
		if !ok {
			ex.unsupported("fmt.Errorf with symbolic format")
		}
		return ex.errorf(fs, a[1].(Slice))
	}
	x["fmt.Sprint"] = func(ex *Exec, c *frame, f *ssa.Function, a []Value) Value {
		return ex.sprint(a[0].(Slice), false)
	}
	x["fmt.Sprintln"] = func(ex *Exec, c *frame, f *ssa.Function, a []Value) Value {
		return ex.sprint(a[0].(Slice), true)
	}
	for _, n := range []string{"fmt.Printf", "fmt.Println", "fmt.Print", "fmt.Fprintf", "fmt.Fprintln", "fmt.Fprint"} {
		x[n] = externNoop
	}

	// ----- strconv -----
	e.native("strconv.Itoa", strconv.Itoa, func(ex *Exec, c *frame, f *ssa.Function, a []Value) Value {
		return SymStr{T: ex.itoa(a[0].(Int), true)}
	})
	e.native("strconv.FormatUint", strconv.FormatUint, func(ex *Exec, c *frame, f *ssa.Function, a []Value) Value {
		if b := a[1].(Int); b.T != nil || b.C != 10 {
			ex.unsupported("FormatUint symbolic with base != 10")
		}
		return SymStr{T: ex.itoa(a[0].(Int), false)}
	})
	e.native("strconv.FormatInt", strconv.FormatInt, func(ex *Exec, c *frame, f *ssa.Function, a []Value) Value {
		if b := a[1].(Int); b.T != nil || b.C != 10 {
			ex.unsupported("FormatInt symbolic with base != 10")
		}
		return SymStr{T: ex.itoa(a[0].(Int), true)}
	})
	e.native("strconv.ParseUint", strconv.ParseUint, nil)
	e.native("strconv.ParseInt", strconv.ParseInt, nil)
	e.native("strconv.Atoi", strconv.Atoi, nil)
	e.native("strconv.Quote", strconv.Quote, nil)
	e.native("strconv.FormatFloat", strconv.FormatFloat, nil)
	e.native("strconv.FormatBool", strconv.FormatBool, nil)

	// ----- encoding/hex -----
	e.native("encoding/hex.EncodeToString", hex.EncodeToString, func(ex *Exec, c *frame, f *ssa.Function, a []Value) Value {
		return hexBytes(a[0].(Slice), false)
	})
	e.native("encoding/hex.DecodeString", hex.DecodeString, nil)
	x["encoding/hex.Encode"] = func(ex *Exec, c *frame, f *ssa.Function, a []Value) Value {
		dst, src := a[0].(Slice), a[1].(Slice)
		hb, _ := strBytesOf(hexBytes(src, false))
		if len(dst) < len(hb) {
			ex.rtPanic("runtime error: index out of range (hex.Encode)")
		}
		copy(dst, hb)
		return CInt(uint64(len(hb)), 64)
	}

	// ----- strings / bytes -----
	e.native("strings.Contains", strings.Contains, func(ex *Exec, c *frame, f *ssa.Function, a []Value) Value {
		s, sok := strBytesOf(a[0])
		sub, subok := strBytesOf(a[1])
		if sok && subok {
			var acc Value = false
			for i := 0; i+len(sub) <= len(s); i++ {
				acc = ex.orVal(acc, ex.bytesEq(s[i:i+len(sub)], sub))
			}
			return acc
		}
		return mkBool(SeqContains(strTerm(a[0]), strTerm(a[1])))
	})
	e.native("strings.HasPrefix", strings.HasPrefix, func(ex *Exec, c *frame, f *ssa.Function, a []Value) Value {
		s, sok := strBytesOf(a[0])
		p, pok := strBytesOf(a[1])
		if sok && pok {
			if len(p) > len(s) {
				return false
			}
			return ex.bytesEq(s[:len(p)], p)
		}
		return mkBool(SeqPrefixOf(strTerm(a[1]), strTerm(a[0])))
	})
	e.native("strings.HasSuffix", strings.HasSuffix, func(ex *Exec, c *frame, f *ssa.Function, a []Value) Value {
		s, sok := strBytesOf(a[0])
		p, pok := strBytesOf(a[1])
		if sok && pok {
			if len(p) > len(s) {
				return false
			}
			return ex.bytesEq(s[len(s)-len(p):], p)
		}
		return mkBool(SeqSuffixOf(strTerm(a[1]), strTerm(a[0])))
	})
	e.native("strings.TrimSpace", strings.TrimSpace, nil)
	caseMap := func(upper bool) ExternFn {
		return func(ex *Exec, c *frame, f *ssa.Function, a []Value) Value {
			bs, ok := strBytesOf(a[0])
			if !ok {
				ex.unsupported("strings.ToUpper/ToLower of unbounded symbolic string")
			}
			out := make([]Value, len(bs))
			for i, b := range bs {
				t := b.(Int).Term()
				// ASCII only: bytes >= 0x80 would need UTF-8 decoding
				if upper {
					isl := And(Bin("bvuge", SBool, t, BVConst('a', 8)), Bin("bvule", SBool, t, BVConst('z', 8)))
					out[i] = SInt(Ite(isl, Bin("bvsub", SBV(8), t, BVConst(32, 8)), t))
				} else {
					isu := And(Bin("bvuge", SBool, t, BVConst('A', 8)), Bin("bvule", SBool, t, BVConst('Z', 8)))
					out[i] = SInt(Ite(isu, Bin("bvadd", SBV(8), t, BVConst(32, 8)), t))
				}
			}
			return mkStrBytes(out)
		}
	}
	e.native("strings.ToLower", strings.ToLower, caseMap(false))
	e.native("strings.ToUpper", strings.ToUpper, caseMap(true))
	e.native("strings.Index", strings.Index, nil)
	e.native("strings.IndexByte", strings.IndexByte, nil)
	e.native("strings.LastIndex", strings.LastIndex, nil)
	e.native("strings.Split", strings.Split, nil)
	e.native("strings.SplitN", strings.SplitN, nil)
	e.native("strings.Repeat", strings.Repeat, nil)
	e.native("strings.TrimPrefix", strings.TrimPrefix, nil)
	e.native("strings.TrimSuffix", strings.TrimSuffix, nil)
	e.native("strings.Trim", strings.Trim, nil)
	e.native("strings.TrimLeft", strings.TrimLeft, nil)
	e.native("strings.TrimRight", strings.TrimRight, nil)
	e.native("strings.EqualFold", strings.EqualFold, nil)
	e.native("strings.Count", strings.Count, nil)
	e.native("strings.ReplaceAll", strings.ReplaceAll, nil)
	x["strings.Join"] = func(ex *Exec, c *frame, f *ssa.Function, a []Value) Value {
		elems := a[0].(Slice)
		var parts []Value
		for i, el := range elems {
			if i > 0 {
				parts = append(parts, a[1])
			}
			parts = append(parts, el)
		}
		if len(parts) == 0 {
			return ""
		}
		return concatStr(parts)
	}
	x["bytes.Equal"] = func(ex *Exec, c *frame, f *ssa.Function, a []Value) Value {
		return ex.bytesEq(a[0].(Slice), a[1].(Slice))
	}
	x["crypto/subtle.ConstantTimeCompare"] = func(ex *Exec, c *frame, f *ssa.Function, a []Value) Value {
		r := ex.bytesEq(a[0].(Slice), a[1].(Slice))
		if b, ok := r.(bool); ok {
			if b {
				return CInt(1, 64)
			}
			return CInt(0, 64)
		}
		return SInt(Ite(boolTerm(r), BVConst(1, 64), BVConst(0, 64)))
	}
	e.native("bytes.Compare", bytes.Compare, nil)
	e.native("bytes.Contains", bytes.Contains, nil)
	e.native("bytes.HasPrefix", bytes.HasPrefix, nil)
	e.native("bytes.IndexByte", bytes.IndexByte, nil)
	e.native("internal/bytealg.IndexByteString", strings.IndexByte, nil)
	e.native("internal/bytealg.IndexByte", bytes.IndexByte, nil)
	e.native("internal/bytealg.CountString", func(s string, c byte) int { return strings.Count(s, string([]byte{c})) }, nil)
	e.native("internal/bytealg.Count", func(s []byte, c byte) int { return bytes.Count(s, []byte{c}) }, nil)
	e.native("internal/bytealg.IndexString", strings.Index, nil)
	e.native("internal/bytealg.Index", bytes.Index, nil)
	e.native("internal/bytealg.Compare", bytes.Compare, nil)
	e.native("internal/bytealg.LastIndexByteString", strings.LastIndexByte, nil)
	x["internal/bytealg.Equal"] = x["bytes.Equal"]
	x["internal/bytealg.MakeNoZero"] = func(ex *Exec, c *frame, f *ssa.Function, a []Value) Value {
		n := ex.concretize(a[0].(Int))
		out := make(Slice, n)
		for i := range out {
			out[i] = CInt(0, 8)
		}
		return out
	}
	x["internal/abi.NoEscape"] = func(ex *Exec, c *frame, f *ssa.Function, a []Value) Value { return a[0] }
	x["strings.noescape"] = x["internal/abi.NoEscape"]
	x["internal/abi.Escape"] = func(ex *Exec, c *frame, f *ssa.Function, a []Value) Value { return a[0] }
	e.native("unicode/utf8.ValidString", utf8.ValidString, nil)
	e.native("unicode/utf8.RuneCountInString", utf8.RuneCountInString, nil)

	// ----- crypto/sha256 -----
	x["crypto/sha256.Sum256"] = func(ex *Exec, c *frame, f *ssa.Function, a []Value) Value {
		return Array(ex.sha256Of(a[0].(Slice)))
	}
	registerSha256Hasher(e)

	// ----- runtime / os / misc -----
	x["runtime.NumGoroutine"] = func(ex *Exec, c *frame, f *ssa.Function, a []Value) Value { return CInt(1, 64) }
	x["runtime.Gosched"] = externNoop
	x["runtime.KeepAlive"] = externNoop
	x["runtime.SetFinalizer"] = externNoop
	x["runtime.GC"] = externNoop
	// single-directory file model (C19): files are byte strings keyed by path
	files := func(ex *Exec) map[string]Slice {
		m, _ := ex.side["files"].(map[string]Slice)
		if m == nil {
			m = map[string]Slice{}
			ex.side["files"] = m
		}
		return m
	}
	notExist := func(ex *Exec, op string) Value {
		e := ex.newError(op + ": no such file or directory (gosx file model)")
		ex.side["notexist"] = e.(Iface).V
		return e
	}
	x["os.WriteFile"] = func(ex *Exec, c *frame, f *ssa.Function, a []Value) Value {
		p, ok := a[0].(string)
		if !ok {
			ex.unsupported("os.WriteFile with symbolic path")
		}
		files(ex)[p] = append(Slice(nil), a[1].(Slice)...)
		return Iface{}
	}
	x["os.ReadFile"] = func(ex *Exec, c *frame, f *ssa.Function, a []Value) Value {
		p, ok := a[0].(string)
		if !ok {
			ex.unsupported("os.ReadFile with symbolic path")
		}
		if b, has := files(ex)[p]; has {
			return Tuple{append(Slice{}, b...), Iface{}}
		}
		return Tuple{Slice(nil), notExist(ex, "open "+p)}
	}
	x["os.Stat"] = func(ex *Exec, c *frame, f *ssa.Function, a []Value) Value {
		p, _ := a[0].(string)
		if _, has := files(ex)[p]; has {
			return Tuple{Iface{}, Iface{}}
		}
		return Tuple{Iface{}, notExist(ex, "stat "+p)}
	}
	x["os.MkdirAll"] = func(ex *Exec, c *frame, f *ssa.Function, a []Value) Value { return Iface{} }
	x["os.Remove"] = func(ex *Exec, c *frame, f *ssa.Function, a []Value) Value {
		p, _ := a[0].(string)
		delete(files(ex), p)
		return Iface{}
	}
	x["encoding/gob.Register"] = externNoop
	x["os.IsNotExist"] = func(ex *Exec, c *frame, f *ssa.Function, a []Value) Value {
		e := a[0].(Iface)
		if e.T == nil {
			return false
		}
		p, _ := e.V.(*Value)
		q, _ := ex.side["notexist"].(*Value)
		return p != nil && p == q
	}
	e.native("path/filepath.Join", filepath.Join, nil)
	e.native("path/filepath.Dir", filepath.Dir, nil)
	e.native("path.Clean", path.Clean, nil)
	x["os.Getenv"] = func(ex *Exec, c *frame, f *ssa.Function, a []Value) Value { return "" }
	x["os.LookupEnv"] = func(ex *Exec, c *frame, f *ssa.Function, a []Value) Value { return Tuple{"", false} }

	registerTime(e)
	registerProto(e)
	registerCrypto(e)
	registerThreads(e)
	registerGob(e)
	registerJSON(e)
}

// streaming sha256: hash.Hash object backed by a side-table buffer.
func registerSha256Hasher(e *Engine) {
	x := e.externs
	var digT types.Type
	var pfx string
	if p := e.ssaPkgs["crypto/internal/fips140/sha256"]; p != nil && p.Type("Digest") != nil {
		digT = p.Type("Digest").Object().Type()
		pfx = "(*crypto/internal/fips140/sha256.Digest)."
	} else if p := e.ssaPkgs["crypto/sha256"]; p != nil && p.Type("digest") != nil {
		digT = p.Type("digest").Object().Type()
		pfx = "(*crypto/sha256.digest)."
	} else {
		return
	}
	type hbuf struct{ data []Value }
	get := func(ex *Exec, p *Value) *hbuf {
		h, _ := ex.side[p].(*hbuf)
		if h == nil {
			h = &hbuf{}
			ex.side[p] = h
		}
		return h
	}
	x["crypto/sha256.New"] = func(ex *Exec, c *frame, f *ssa.Function, a []Value) Value {
		cell := zero(digT)
		p := &cell
		return Iface{T: types.NewPointer(digT), V: p}
	}
	x[pfx+"Write"] = func(ex *Exec, c *frame, f *ssa.Function, a []Value) Value {
		h := get(ex, a[0].(*Value))
		h.data = append(h.data, a[1].(Slice)...)
		return Tuple{CInt(uint64(len(a[1].(Slice))), 64), Iface{}}
	}
	x[pfx+"Reset"] = func(ex *Exec, c *frame, f *ssa.Function, a []Value) Value {
		get(ex, a[0].(*Value)).data = nil
		return nil
	}
	x[pfx+"Sum"] = func(ex *Exec, c *frame, f *ssa.Function, a []Value) Value {
		h := get(ex, a[0].(*Value))
		d := ex.sha256Of(h.data)
		return append(a[1].(Slice), d...)
	}
	x[pfx+"Size"] = func(ex *Exec, c *frame, f *ssa.Function, a []Value) Value { return CInt(32, 64) }
	x[pfx+"BlockSize"] = func(ex *Exec, c *frame, f *ssa.Function, a []Value) Value { return CInt(64, 64) }
}
