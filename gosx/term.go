package main

// SMT terms.  A term is an immutable s-expression string plus its sort.  Large
// terms are abbreviated by define-fun names derived from a hash of the body so
// that the same name always denotes the same body (needed because paths are
// re-executed from scratch and share one solver process per worker).

import (
	"crypto/sha1"
	"encoding/hex"
	"fmt"
	"strings"
	"sync"
)

type Sort struct {
	K int // 0 bool, 1 bitvec, 2 seq of bv8
	W int // width for bitvec
}

var (
	SBool = Sort{0, 0}
	SSeq  = Sort{2, 0}
)

func SBV(w int) Sort { return Sort{1, w} }

func (s Sort) String() string {
	switch s.K {
	case 0:
		return "Bool"
	case 1:
		return fmt.Sprintf("(_ BitVec %d)", s.W)
	default:
		return "(Seq (_ BitVec 8))"
	}
}

type Term struct {
	S    string
	Sort Sort
}

func (t *Term) String() string { return t.S }

// global registry of abbreviations and declarations (shared by all workers;
// each solver keeps its own "already sent" set).
type declEntry struct {
	name string
	text string // full SMT command
	deps []string
}

var (
	declMu   sync.Mutex
	declTab  = map[string]*declEntry{}
	declSeq  []string
	abbrevAt = 160
)

func registerDecl(name, text string, deps []string) {
	declMu.Lock()
	defer declMu.Unlock()
	if _, ok := declTab[name]; ok {
		return
	}
	declTab[name] = &declEntry{name, text, deps}
	declSeq = append(declSeq, name)
}

func lookupDecl(name string) *declEntry {
	declMu.Lock()
	defer declMu.Unlock()
	return declTab[name]
}

// symbols referenced in an s-expression that are registered declarations
func identsIn(s string) []string {
	var out []string
	seen := map[string]bool{}
	i := 0
	for i < len(s) {
		c := s[i]
		if c == '|' {
			j := strings.IndexByte(s[i+1:], '|')
			if j < 0 {
				break
			}
			id := s[i : i+j+2]
			if !seen[id] {
				seen[id] = true
				out = append(out, id)
			}
			i += j + 2
			continue
		}
		if c == '(' || c == ')' || c == ' ' || c == '\n' {
			i++
			continue
		}
		j := i
		for j < len(s) && s[j] != '(' && s[j] != ')' && s[j] != ' ' && s[j] != '\n' {
			j++
		}
		id := s[i:j]
		if (strings.HasPrefix(id, "d!") || strings.HasPrefix(id, "v!") || strings.HasPrefix(id, "f!")) && !seen[id] {
			seen[id] = true
			out = append(out, id)
		}
		i = j
	}
	return out
}

func mk(s string, sort Sort) *Term {
	if len(s) > abbrevAt {
		h := sha1.Sum([]byte(s))
		name := "d!" + hex.EncodeToString(h[:10])
		registerDecl(name, fmt.Sprintf("(define-fun %s () %s %s)", name, sort, s), identsIn(s))
		return &Term{name, sort}
	}
	return &Term{s, sort}
}

// Var declares (idempotently) an input constant.
func Var(name string, sort Sort) *Term {
	n := "v!" + sanitize(name)
	registerDecl(n, fmt.Sprintf("(declare-const %s %s)", n, sort), nil)
	return &Term{n, sort}
}

// UF declares an uninterpreted function.
func UF(name string, args []Sort, res Sort) string {
	n := "f!" + sanitize(name)
	var sb strings.Builder
	for i, a := range args {
		if i > 0 {
			sb.WriteByte(' ')
		}
		sb.WriteString(a.String())
	}
	registerDecl(n, fmt.Sprintf("(declare-fun %s (%s) %s)", n, sb.String(), res), nil)
	return n
}

func App(fn string, res Sort, args ...*Term) *Term {
	var sb strings.Builder
	sb.WriteByte('(')
	sb.WriteString(fn)
	for _, a := range args {
		sb.WriteByte(' ')
		sb.WriteString(a.S)
	}
	sb.WriteByte(')')
	return mk(sb.String(), res)
}

func sanitize(s string) string {
	var sb strings.Builder
	for _, r := range s {
		switch {
		case r >= 'a' && r <= 'z', r >= 'A' && r <= 'Z', r >= '0' && r <= '9', r == '_', r == '.', r == '-':
			sb.WriteRune(r)
		case r == '#':
			sb.WriteString("@")
		case r == '[':
			sb.WriteString("_")
		case r == ']':
		default:
			sb.WriteString("_")
		}
	}
	return sb.String()
}

var (
	TTrue  = &Term{"true", SBool}
	TFalse = &Term{"false", SBool}
)

func BoolConst(b bool) *Term {
	if b {
		return TTrue
	}
	return TFalse
}

func BVConst(v uint64, w int) *Term {
	if w < 64 {
		v &= (uint64(1) << uint(w)) - 1
	}
	if w%4 == 0 {
		return &Term{fmt.Sprintf("#x%0*x", w/4, v), SBV(w)}
	}
	return &Term{fmt.Sprintf("(_ bv%d %d)", v, w), SBV(w)}
}

func Not(a *Term) *Term {
	switch a.S {
	case "true":
		return TFalse
	case "false":
		return TTrue
	}
	if strings.HasPrefix(a.S, "(not ") && len(a.S) < abbrevAt {
		return &Term{a.S[5 : len(a.S)-1], SBool}
	}
	return mk("(not "+a.S+")", SBool)
}

func And(a, b *Term) *Term {
	if a.S == "true" {
		return b
	}
	if b.S == "true" {
		return a
	}
	if a.S == "false" || b.S == "false" {
		return TFalse
	}
	if a.S == b.S {
		return a
	}
	return mk("(and "+a.S+" "+b.S+")", SBool)
}

func Or(a, b *Term) *Term {
	if a.S == "false" {
		return b
	}
	if b.S == "false" {
		return a
	}
	if a.S == "true" || b.S == "true" {
		return TTrue
	}
	if a.S == b.S {
		return a
	}
	return mk("(or "+a.S+" "+b.S+")", SBool)
}

func Implies(a, b *Term) *Term { return Or(Not(a), b) }

func Eq(a, b *Term) *Term {
	if a.S == b.S {
		return TTrue
	}
	if a.Sort != b.Sort {
		panic(fmt.Sprintf("Eq: sort mismatch %v %v (%s / %s)", a.Sort, b.Sort, a.S, b.S))
	}
	if isLit(a) && isLit(b) {
		return TFalse
	}
	return mk("(= "+a.S+" "+b.S+")", SBool)
}

func isLit(a *Term) bool {
	return strings.HasPrefix(a.S, "#x") || strings.HasPrefix(a.S, "(_ bv") || a.S == "true" || a.S == "false"
}

func Ite(c, a, b *Term) *Term {
	switch c.S {
	case "true":
		return a
	case "false":
		return b
	}
	if a.S == b.S {
		return a
	}
	if a.Sort == SBool {
		if a.S == "true" && b.S == "false" {
			return c
		}
		if a.S == "false" && b.S == "true" {
			return Not(c)
		}
	}
	return mk("(ite "+c.S+" "+a.S+" "+b.S+")", a.Sort)
}

func Bin(op string, res Sort, a, b *Term) *Term {
	return mk("("+op+" "+a.S+" "+b.S+")", res)
}

func Un(op string, res Sort, a *Term) *Term {
	return mk("("+op+" "+a.S+")", res)
}

func Extract(hi, lo int, a *Term) *Term {
	if lo == 0 && hi == a.Sort.W-1 {
		return a
	}
	return mk(fmt.Sprintf("((_ extract %d %d) %s)", hi, lo, a.S), SBV(hi-lo+1))
}

func ZeroExt(n int, a *Term) *Term {
	if n == 0 {
		return a
	}
	return mk(fmt.Sprintf("((_ zero_extend %d) %s)", n, a.S), SBV(a.Sort.W+n))
}

func SignExt(n int, a *Term) *Term {
	if n == 0 {
		return a
	}
	return mk(fmt.Sprintf("((_ sign_extend %d) %s)", n, a.S), SBV(a.Sort.W+n))
}

// ---- sequences of bytes ----

var SeqEmpty = &Term{"(as seq.empty (Seq (_ BitVec 8)))", SSeq}

func SeqUnit(b *Term) *Term { return mk("(seq.unit "+b.S+")", SSeq) }

func SeqConcat(parts ...*Term) *Term {
	var ps []*Term
	for _, p := range parts {
		if p.S == SeqEmpty.S {
			continue
		}
		ps = append(ps, p)
	}
	switch len(ps) {
	case 0:
		return SeqEmpty
	case 1:
		return ps[0]
	}
	// chunk to keep individual strings small
	for len(ps) > 8 {
		var next []*Term
		for i := 0; i < len(ps); i += 8 {
			j := i + 8
			if j > len(ps) {
				j = len(ps)
			}
			next = append(next, seqConcatFlat(ps[i:j]))
		}
		ps = next
	}
	return seqConcatFlat(ps)
}

func seqConcatFlat(ps []*Term) *Term {
	if len(ps) == 1 {
		return ps[0]
	}
	var sb strings.Builder
	sb.WriteString("(seq.++")
	for _, p := range ps {
		sb.WriteByte(' ')
		sb.WriteString(p.S)
	}
	sb.WriteByte(')')
	return mk(sb.String(), SSeq)
}

func SeqOfString(s string) *Term {
	if len(s) == 0 {
		return SeqEmpty
	}
	parts := make([]*Term, len(s))
	for i := 0; i < len(s); i++ {
		parts[i] = SeqUnit(BVConst(uint64(s[i]), 8))
	}
	return SeqConcat(parts...)
}

// SeqLen returns the length as a 64-bit bit-vector (int2bv of seq.len).
func SeqLen(s *Term) *Term {
	return mk("((_ int2bv 64) (seq.len "+s.S+"))", SBV(64))
}

func SeqNth(s *Term, i *Term) *Term {
	return mk("(seq.nth "+s.S+" (bv2nat "+i.S+"))", SBV(8))
}

func SeqExtract(s, off, n *Term) *Term {
	return mk("(seq.extract "+s.S+" (bv2nat "+off.S+") (bv2nat "+n.S+"))", SSeq)
}

func SeqContains(s, sub *Term) *Term { return mk("(seq.contains "+s.S+" "+sub.S+")", SBool) }
func SeqPrefixOf(pre, s *Term) *Term { return mk("(seq.prefixof "+pre.S+" "+s.S+")", SBool) }
func SeqSuffixOf(suf, s *Term) *Term { return mk("(seq.suffixof "+suf.S+" "+s.S+")", SBool) }
