package main

// Harness-level threads: zzsym.Go(f) registers a thread, zzsym.Join() runs all
// registered threads to completion under every interleaving at gate
// granularity.  Gates are the thread starts and the zzsym.Yield() calls that
// the harness doubles place at I/O operations (datastore Put/Get/Delete/...):
// the code between two gates of one thread runs without interruption, except
// that a thread that needs a held sync.Mutex/RWMutex is descheduled until the
// lock is free.  Each interpreted thread runs on its own Go goroutine; a baton
// (the resume channels) makes sure exactly one of them executes at any time,
// so the executor state stays single-threaded and re-execution from a decision
// list is deterministic.  The sequence of threads granted passage at the
// gates is recorded (model key "__schedule") for the native replay.

import (
	"fmt"
	"go/token"
	"strconv"
	"strings"
	"sync"

	"golang.org/x/tools/go/ssa"
)

type thread struct {
	id       int
	fn       Value
	pos      token.Pos
	resume   chan struct{}
	started  bool
	done     bool
	canRun   func() bool // non-nil while waiting for a lock
	curFrame *frame
	depth    int
}

type threadKill struct{}

type threadState struct {
	threads []*thread // [0] is the harness (main) thread
	cur     int
	joining bool
	dead    bool
	pending interface{} // path end raised in a non-main thread, re-raised in main
	sched   []int
	wg      sync.WaitGroup
	// preemption bound: at most maxPre switches away from a thread that could
	// have continued (-1: unbounded); switches at lock waits and exits are free
	maxPre, pre int
}

func (ex *Exec) ts() *threadState {
	if ex.thr == nil {
		ex.thr = &threadState{maxPre: -1, threads: []*thread{{id: 0, resume: make(chan struct{}, 1), started: true}}}
	}
	return ex.thr
}

// inThreads: a Join is in progress (threads other than main may be live)
func (ex *Exec) inThreads() bool { return ex.thr != nil && ex.thr.joining }

func (ex *Exec) runnable(t *thread) bool {
	if t.done {
		return false
	}
	if t.id == 0 {
		// main is parked in Join: runnable when all others are done
		for _, o := range ex.thr.threads[1:] {
			if !o.done {
				return false
			}
		}
		return true
	}
	return t.canRun == nil || t.canRun()
}

func (ex *Exec) schedString() string {
	var p []string
	for _, s := range ex.thr.sched {
		p = append(p, strconv.Itoa(s))
	}
	return strings.Join(p, ",")
}

// transfer hands the baton to thread next; unless the caller is finished it
// parks until it is resumed.
func (ex *Exec) transfer(me *thread, next int) {
	ts := ex.thr
	me.curFrame, me.depth = ex.curFrame, ex.depth
	nt := ts.threads[next]
	ts.cur = next
	ex.curFrame, ex.depth = nt.curFrame, nt.depth
	if !nt.started {
		ex.startThread(nt)
	}
	nt.resume <- struct{}{}
	if me.done {
		return
	}
	<-me.resume
	if ts.dead {
		panic(threadKill{})
	}
	if me.id == 0 && ts.pending != nil {
		p := ts.pending
		ts.pending = nil
		panic(p)
	}
}

func (ex *Exec) startThread(t *thread) {
	ts := ex.thr
	t.started = true
	ts.wg.Add(1)
	go func() {
		defer ts.wg.Done()
		<-t.resume
		if ts.dead {
			return
		}
		defer func() {
			r := recover()
			if _, kill := r.(threadKill); kill || ts.dead {
				return
			}
			t.done = true
			if r != nil {
				// the path ends here: the reason is re-raised in the main thread
				if tp, ok := r.(targetPanic); ok {
					r = pathEnd{"panic", "in goroutine " + strconv.Itoa(t.id) + ": " + ex.panicString(tp.v)}
				}
				ts.pending = r
				ex.wakeMain()
				return
			}
			ex.threadExit(t)
		}()
		ex.call(nil, t.pos, t.fn, nil)
	}()
}

func (ex *Exec) wakeMain() {
	ts := ex.thr
	m := ts.threads[0]
	ts.cur = 0
	ex.curFrame, ex.depth = m.curFrame, m.depth
	m.resume <- struct{}{}
}

// threadExit: a thread returned; somebody else continues.
func (ex *Exec) threadExit(t *thread) {
	ts := ex.thr
	var others []int
	for i, o := range ts.threads {
		if i != t.id && ex.runnable(o) {
			others = append(others, i)
		}
	}
	if len(others) == 0 {
		ts.pending = pathEnd{"blocked", "deadlock: every remaining goroutine waits for a lock"}
		ex.wakeMain()
		return
	}
	next := others[0]
	if len(others) > 1 {
		// main is never among several candidates (it runs only when all are done)
		next = others[ex.chooseNoPanic(len(others))]
	}
	if next != 0 {
		ts.sched = append(ts.sched, next)
	}
	ex.transfer(t, next)
}

// chooseNoPanic is choose() for use inside deferred handlers: a decision-kind
// mismatch cannot be raised as a panic there, it is handed to main instead.
func (ex *Exec) chooseNoPanic(n int) (k int) {
	defer func() {
		if r := recover(); r != nil {
			ex.thr.pending = r
			k = 0
		}
	}()
	return ex.choose(n)
}

// gate: a scheduling point of the current thread (which can continue).
func (ex *Exec) gate() {
	if !ex.inThreads() {
		return
	}
	ts := ex.thr
	me := ts.threads[ts.cur]
	cands := []int{me.id}
	if ts.maxPre < 0 || ts.pre < ts.maxPre {
		for i, o := range ts.threads {
			if i != me.id && i != 0 && ex.runnable(o) {
				cands = append(cands, i)
			}
		}
	}
	next := cands[ex.choose(len(cands))]
	ts.sched = append(ts.sched, next)
	if next != me.id {
		ts.pre++
		ex.transfer(me, next)
	}
}

// blockOn deschedules the current thread until canRun() holds.
func (ex *Exec) blockOn(canRun func() bool, what string) {
	ts := ex.thr
	me := ts.threads[ts.cur]
	for !canRun() {
		me.canRun = canRun
		var others []int
		for i, o := range ts.threads {
			if i != me.id && i != 0 && ex.runnable(o) {
				others = append(others, i)
			}
		}
		if len(others) == 0 {
			ex.end("blocked", "deadlock: "+what+" @ "+ex.stack())
		}
		next := others[ex.choose(len(others))]
		// (resumption after a lock wait is not a gate: natively the lock decides)
		ex.transfer(me, next)
		me.canRun = nil
	}
}

func (ex *Exec) join() {
	ts := ex.ts()
	if len(ts.threads) == 1 {
		return
	}
	live := false
	for _, t := range ts.threads[1:] {
		if !t.done {
			live = true
		}
	}
	if !live {
		return
	}
	ts.joining = true
	me := ts.threads[0]
	var cands []int
	for i, o := range ts.threads {
		if i != 0 && ex.runnable(o) {
			cands = append(cands, i)
		}
	}
	next := cands[ex.choose(len(cands))]
	ts.sched = append(ts.sched, next)
	ex.transfer(me, next)
	ts.joining = false
}

// killThreads ends every parked thread of a finished path.
func (ex *Exec) killThreads() {
	ts := ex.thr
	if ts == nil {
		return
	}
	ts.dead = true
	for _, t := range ts.threads[1:] {
		if t.started && !t.done {
			close(t.resume)
		}
	}
	ts.wg.Wait()
}

func registerThreads(e *Engine) {
	x := e.externs
	x["zzsym.Go"] = func(ex *Exec, c *frame, f *ssa.Function, a []Value) Value {
		ts := ex.ts()
		if ts.joining {
			ex.unsupported("zzsym.Go inside a thread")
		}
		pos := token.NoPos
		if c != nil && c.cur != nil {
			pos = c.cur.Pos()
		}
		ts.threads = append(ts.threads, &thread{id: len(ts.threads), fn: a[0], pos: pos, resume: make(chan struct{}, 1)})
		return nil
	}
	x["zzsym.Join"] = func(ex *Exec, c *frame, f *ssa.Function, a []Value) Value {
		ex.curFrame = c
		ex.join()
		return nil
	}
	x["zzsym.SetPreemptionBound"] = func(ex *Exec, c *frame, f *ssa.Function, a []Value) Value {
		ex.ts().maxPre = int(a[0].(Int).S64())
		return nil
	}
	x["zzsym.NondetMapOrder"] = func(ex *Exec, c *frame, f *ssa.Function, a []Value) Value {
		ex.side["nondetMapOrder"] = a[0].(bool)
		return nil
	}
	// the CPU quota of the process: zzsym.SetCPUs(n) (a restart on another host)
	// changes what runtime.GOMAXPROCS(0) / runtime.NumCPU() report; default 8
	x["zzsym.SetCPUs"] = func(ex *Exec, c *frame, f *ssa.Function, a []Value) Value {
		ex.side["cpus"] = a[0]
		return nil
	}
	cpus := func(ex *Exec, c *frame, f *ssa.Function, a []Value) Value {
		if v, ok := ex.side["cpus"].(Int); ok {
			return v
		}
		return CInt(8, 64)
	}
	x["runtime.GOMAXPROCS"] = cpus
	x["runtime.NumCPU"] = cpus
	x["zzsym.Yield"] = func(ex *Exec, c *frame, f *ssa.Function, a []Value) Value {
		ex.gate()
		return nil
	}
	_ = fmt.Sprint
}
