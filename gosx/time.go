package main

// Abstract time.  time.Time is kept as its real struct {wall, ext, loc} but
// always with wall=0, loc=nil and ext = nanoseconds since the Unix epoch
// (zero struct == Unix epoch; IsZero() <=> ext==0).  All methods the repo uses
// are summarised as linear arithmetic on ext; the real implementation divides
// by 1e9, which no available solver decides at 64 bits.
//
// The clock is a symbolic non-decreasing 64-bit value.  Timers and tickers
// are channels of Kind 1 with a deadline; a blocking operation that cannot
// proceed advances the clock to the earliest armed deadline.

import (
	"fmt"
	"go/token"
	"go/types"
	"math"

	"golang.org/x/tools/go/ssa"
)

type timerState struct {
	armed    bool
	deadline Int
	period   Int // ticker
	ticker   bool
	fn       Value // AfterFunc / zzsym.At
	ch       *Chan
	name     string
}

func mkTime(ns Int) Value {
	return Struct{CInt(0, 64), ns, (*Value)(nil)}
}

func (ex *Exec) timeNs(v Value) Int {
	st := v.(Struct)
	if w := st[0].(Int); w.T != nil || w.C != 0 {
		ex.unsupported("time.Time with monotonic/wall encoding reached a summary")
	}
	return st[1].(Int)
}

func (ex *Exec) i64(op token.Token, a, b Int) Int {
	return ex.intBinop(op, types.Typ[types.Int64], a, b).(Int)
}

func (ex *Exec) now() Int {
	if ex.clock == nil {
		t := ex.fresh("clock0", SBV(64))
		// keep well inside the int64 range so that additions do not wrap
		ex.addPC(Bin("bvsge", SBool, t, BVConst(1<<40, 64)))
		ex.addPC(Bin("bvsle", SBool, t, BVConst(1<<61, 64)))
		ex.clock = t
	}
	return SInt(ex.clock)
}

// tick lets an arbitrary non-negative amount of time pass.
func (ex *Exec) tick() Int {
	cur := ex.now()
	if ex.side["freezeClock"] != nil {
		return cur
	}
	d := ex.fresh("dt", SBV(64))
	ex.addPC(Bin("bvsge", SBool, d, BVConst(0, 64)))
	ex.addPC(Bin("bvsle", SBool, d, BVConst(1<<50, 64)))
	n := Bin("bvadd", SBV(64), cur.T, d)
	ex.clock = n
	return SInt(n)
}

func (ex *Exec) advanceTo(t Int) {
	cur := ex.now()
	// clock = max(clock, t)
	c := ex.intBinop(token.LSS, types.Typ[types.Int64], cur, t)
	if ex.branch(c) {
		ex.clock = t.Term()
	}
}

func (ex *Exec) newTimerChan(d Int, ticker bool, fn Value, name string) *Chan {
	now := ex.now()
	ts := &timerState{armed: true, deadline: ex.i64(token.ADD, now, d), ticker: ticker, period: d, fn: fn, name: name}
	ch := &Chan{Cap: 1, Kind: 1, Aux: ts, Name: name}
	ts.ch = ch
	ex.timers = append(ex.timers, ch)
	return ch
}

func (ex *Exec) pollTimerChan(c *Chan) {
	ts := c.Aux.(*timerState)
	if !ts.armed {
		return
	}
	due := ex.intBinop(token.LEQ, types.Typ[types.Int64], ts.deadline, ex.now())
	if ex.branch(due) {
		ex.fireTimer(ts)
	}
}

func (ex *Exec) fireTimer(ts *timerState) {
	if ts.fn != nil {
		ts.armed = false
		ex.call(ex.curFrame, token.NoPos, ts.fn, nil)
		return
	}
	if len(ts.ch.Buf) < ts.ch.Cap {
		ts.ch.Buf = append(ts.ch.Buf, mkTime(ts.deadline))
	}
	if ts.ticker {
		ts.deadline = ex.i64(token.ADD, ts.deadline, ts.period)
	} else {
		ts.armed = false
	}
}

// fireDueCallbacks runs scheduled callbacks (AfterFunc, zzsym.At) whose
// instant has been reached: they model concurrent activity, which does not
// wait for the code under test to block.
func (ex *Exec) fireDueCallbacks() {
	if ex.inCallback {
		return
	}
	for i := 0; i < len(ex.timers); i++ {
		ts := ex.timers[i].Aux.(*timerState)
		if !ts.armed || ts.fn == nil {
			continue
		}
		due := ex.intBinop(token.LEQ, types.Typ[types.Int64], ts.deadline, ex.now())
		if ex.branch(due) {
			ex.inCallback = true
			ex.fireTimer(ts)
			ex.inCallback = false
		}
	}
}

// advanceTime moves the clock to the earliest armed deadline and fires that
// timer.  Returns false if no timer is armed.
func (ex *Exec) advanceTime(onlyCallbacks ...bool) bool {
	ex.idleSpins++
	if ex.idleSpins > 20000 {
		ex.end("budget", "more than 20000 timer firings while blocked @ "+ex.stack())
	}
	var armed []*timerState
	for _, c := range ex.timers {
		ts := c.Aux.(*timerState)
		if ts.armed && (len(onlyCallbacks) == 0 || !onlyCallbacks[0] || ts.fn != nil) {
			armed = append(armed, ts)
		}
	}
	if len(armed) == 0 {
		return false
	}
	// choose the timer that fires first.  Canonical choice: the first timer
	// with the minimal deadline (ties are resolved by the select that polls the
	// channels afterwards).  Only candidates that can be minimal are explored.
	k := 0
	if len(armed) > 1 {
		conds := make([]*Term, len(armed))
		for c := range armed {
			t := TTrue
			for i, o := range armed {
				if i == c {
					continue
				}
				op := token.LEQ
				if i < c {
					op = token.LSS
				}
				t = And(t, boolTerm(ex.intBinop(op, types.Typ[types.Int64], armed[c].deadline, o.deadline)))
			}
			conds[c] = t
		}
		if ex.pos < len(ex.decisions) {
			k = ex.choose(len(armed))
		} else {
			var cands []int
			for c, t := range conds {
				if t.S == "false" {
					continue
				}
				if t.S == "true" || ex.sol.Check(t) != Unsat {
					cands = append(cands, c)
				}
			}
			if len(cands) == 0 {
				ex.end("infeasible", "no timer can be minimal")
			}
			k = ex.chooseAmong(cands)
		}
		ex.assume(mkBool(conds[k]))
	}
	ex.advanceTo(armed[k].deadline)
	ex.fireTimer(armed[k])
	return true
}

func registerTime(e *Engine) {
	x := e.externs
	i64 := types.Typ[types.Int64]
	x["time.Now"] = func(ex *Exec, c *frame, f *ssa.Function, a []Value) Value { return mkTime(ex.tick()) }
	x["time.Unix"] = func(ex *Exec, c *frame, f *ssa.Function, a []Value) Value {
		sec, nsec := a[0].(Int), a[1].(Int)
		s := ex.intBinop(token.MUL, i64, sec, CInt(1e9, 64)).(Int)
		return mkTime(ex.i64(token.ADD, s, nsec))
	}
	x["time.UnixMilli"] = func(ex *Exec, c *frame, f *ssa.Function, a []Value) Value {
		return mkTime(ex.intBinop(token.MUL, i64, a[0].(Int), CInt(1e6, 64)).(Int))
	}
	x["time.Since"] = func(ex *Exec, c *frame, f *ssa.Function, a []Value) Value {
		return ex.i64(token.SUB, ex.tick(), ex.timeNs(a[0]))
	}
	x["time.Until"] = func(ex *Exec, c *frame, f *ssa.Function, a []Value) Value {
		return ex.i64(token.SUB, ex.timeNs(a[0]), ex.tick())
	}
	x["(time.Time).UnixNano"] = func(ex *Exec, c *frame, f *ssa.Function, a []Value) Value { return ex.timeNs(a[0]) }
	x["(time.Time).Unix"] = func(ex *Exec, c *frame, f *ssa.Function, a []Value) Value {
		return ex.intBinop(token.QUO, i64, ex.timeNs(a[0]), CInt(1e9, 64))
	}
	x["(time.Time).UnixMilli"] = func(ex *Exec, c *frame, f *ssa.Function, a []Value) Value {
		return ex.intBinop(token.QUO, i64, ex.timeNs(a[0]), CInt(1e6, 64))
	}
	x["(time.Time).Nanosecond"] = func(ex *Exec, c *frame, f *ssa.Function, a []Value) Value {
		return ex.intBinop(token.REM, i64, ex.timeNs(a[0]), CInt(1e9, 64))
	}
	cmp := func(op token.Token) ExternFn {
		return func(ex *Exec, c *frame, f *ssa.Function, a []Value) Value {
			return ex.intBinop(op, i64, ex.timeNs(a[0]), ex.timeNs(a[1]))
		}
	}
	x["(time.Time).Before"] = cmp(token.LSS)
	x["(time.Time).After"] = cmp(token.GTR)
	x["(time.Time).Equal"] = cmp(token.EQL)
	x["(time.Time).Compare"] = func(ex *Exec, c *frame, f *ssa.Function, a []Value) Value {
		p, q := ex.timeNs(a[0]), ex.timeNs(a[1])
		if ex.branch(ex.intBinop(token.LSS, i64, p, q)) {
			return CInt(uint64(math.MaxUint64), 64)
		}
		if ex.branch(ex.intBinop(token.GTR, i64, p, q)) {
			return CInt(1, 64)
		}
		return CInt(0, 64)
	}
	x["(time.Time).IsZero"] = func(ex *Exec, c *frame, f *ssa.Function, a []Value) Value {
		return ex.intBinop(token.EQL, i64, ex.timeNs(a[0]), CInt(0, 64))
	}
	x["(time.Time).Sub"] = func(ex *Exec, c *frame, f *ssa.Function, a []Value) Value {
		return ex.i64(token.SUB, ex.timeNs(a[0]), ex.timeNs(a[1]))
	}
	x["(time.Time).Add"] = func(ex *Exec, c *frame, f *ssa.Function, a []Value) Value {
		return mkTime(ex.i64(token.ADD, ex.timeNs(a[0]), a[1].(Int)))
	}
	ident := func(ex *Exec, c *frame, f *ssa.Function, a []Value) Value { ex.timeNs(a[0]); return a[0] }
	x["(time.Time).UTC"] = ident
	x["(time.Time).Local"] = ident
	x["(time.Time).In"] = ident
	x["(time.Time).Round"] = ident
	x["(time.Time).Truncate"] = func(ex *Exec, c *frame, f *ssa.Function, a []Value) Value {
		d := a[1].(Int)
		if d.T == nil && d.S64() <= 1 {
			return a[0]
		}
		ex.unsupported("Time.Truncate")
		return nil
	}
	strOf := func(ex *Exec, c *frame, f *ssa.Function, a []Value) Value {
		ns := ex.timeNs(a[0])
		if ns.T == nil {
			return fmt.Sprintf("T+%dns", ns.S64())
		}
		return SymStr{T: ex.ufStr("timestr", ns.T)}
	}
	x["(time.Time).String"] = strOf
	x["(time.Time).Format"] = strOf
	x["(time.Time).GoString"] = strOf
	x["(time.Time).MarshalJSON"] = func(ex *Exec, c *frame, f *ssa.Function, a []Value) Value {
		ex.unsupported("Time.MarshalJSON")
		return nil
	}
	fl := func(div float64) ExternFn {
		return func(ex *Exec, c *frame, f *ssa.Function, a []Value) Value {
			d := a[0].(Int)
			if d.T != nil {
				return OpaqueFloat{}
			}
			return float64(d.S64()) / div
		}
	}
	x["(time.Duration).Seconds"] = fl(1e9)
	x["(time.Duration).Minutes"] = fl(60e9)
	x["(time.Duration).Hours"] = fl(3600e9)
	x["(time.Duration).String"] = func(ex *Exec, c *frame, f *ssa.Function, a []Value) Value {
		d := a[0].(Int)
		if d.T != nil {
			return SymStr{T: ex.ufStr("durstr", d.T)}
		}
		return fmt.Sprintf("%dns", d.S64())
	}
	x["time.Sleep"] = func(ex *Exec, c *frame, f *ssa.Function, a []Value) Value {
		d := a[0].(Int)
		ex.sleep(d)
		return nil
	}
	timerT := func(ex *Exec, name string) types.Type {
		return ex.eng.ssaPkgs["time"].Type(name).Object().Type()
	}
	mkTimerObj := func(ex *Exec, tn string, ch *Chan) Value {
		t := timerT(ex, tn)
		cell := zero(t)
		cell.(Struct)[0] = ch
		p := &cell
		ex.side[p] = ch
		return p
	}
	x["time.After"] = func(ex *Exec, c *frame, f *ssa.Function, a []Value) Value {
		return ex.newTimerChan(a[0].(Int), false, nil, "time.After@"+ex.stackTop())
	}
	x["time.NewTimer"] = func(ex *Exec, c *frame, f *ssa.Function, a []Value) Value {
		return mkTimerObj(ex, "Timer", ex.newTimerChan(a[0].(Int), false, nil, "timer@"+ex.stackTop()))
	}
	x["time.NewTicker"] = func(ex *Exec, c *frame, f *ssa.Function, a []Value) Value {
		d := a[0].(Int)
		if ex.branch(ex.intBinop(token.LEQ, i64, d, CInt(0, 64))) {
			ex.rtPanic("non-positive interval for NewTicker")
		}
		return mkTimerObj(ex, "Ticker", ex.newTimerChan(d, true, nil, "ticker@"+ex.stackTop()))
	}
	x["time.Tick"] = func(ex *Exec, c *frame, f *ssa.Function, a []Value) Value {
		return ex.newTimerChan(a[0].(Int), true, nil, "tick@"+ex.stackTop())
	}
	x["time.AfterFunc"] = func(ex *Exec, c *frame, f *ssa.Function, a []Value) Value {
		ch := ex.newTimerChan(a[0].(Int), false, a[1], "afterfunc@"+ex.stackTop())
		ch.Cap = 0
		return mkTimerObj(ex, "Timer", ch)
	}
	tsOf := func(ex *Exec, p Value) *timerState {
		ch, _ := ex.side[p.(*Value)].(*Chan)
		if ch == nil {
			ex.rtPanic("time: Stop/Reset called on uninitialized Timer")
		}
		return ch.Aux.(*timerState)
	}
	x["(*time.Timer).Stop"] = func(ex *Exec, c *frame, f *ssa.Function, a []Value) Value {
		ts := tsOf(ex, a[0])
		was := ts.armed
		ts.armed = false
		ts.ch.Buf = nil // Go >= 1.23: no stale values after Stop
		return was
	}
	x["(*time.Timer).Reset"] = func(ex *Exec, c *frame, f *ssa.Function, a []Value) Value {
		ts := tsOf(ex, a[0])
		was := ts.armed
		ts.armed = true
		ts.ch.Buf = nil
		ts.deadline = ex.i64(token.ADD, ex.now(), a[1].(Int))
		return was
	}
	x["(*time.Ticker).Stop"] = func(ex *Exec, c *frame, f *ssa.Function, a []Value) Value {
		ts := tsOf(ex, a[0])
		ts.armed = false
		ts.ch.Buf = nil
		return nil
	}
	x["(*time.Ticker).Reset"] = func(ex *Exec, c *frame, f *ssa.Function, a []Value) Value {
		ts := tsOf(ex, a[0])
		ts.armed = true
		ts.ch.Buf = nil
		ts.period = a[1].(Int)
		ts.deadline = ex.i64(token.ADD, ex.now(), a[1].(Int))
		return nil
	}
	// zzsym clock helpers
	x["zzsym.NowNs"] = func(ex *Exec, c *frame, f *ssa.Function, a []Value) Value { return ex.now() }
	x["zzsym.At"] = func(ex *Exec, c *frame, f *ssa.Function, a []Value) Value {
		// schedule fn at absolute instant t (ns)
		ts := &timerState{armed: true, deadline: a[0].(Int), fn: a[1], name: "zzsym.At"}
		ch := &Chan{Cap: 0, Kind: 1, Aux: ts, Name: "zzsym.At"}
		ts.ch = ch
		ex.timers = append(ex.timers, ch)
		return nil
	}
	x["zzsym.SetIdleDelay"] = externNoop
	x["zzsym.FreezeTimers"] = func(ex *Exec, c *frame, f *ssa.Function, a []Value) Value {
		ex.side["freezeTimers"] = true
		return nil
	}
	x["zzsym.SetClockNs"] = func(ex *Exec, c *frame, f *ssa.Function, a []Value) Value {
		ex.clock = a[0].(Int).Term()
		return nil
	}
	x["zzsym.FreezeClock"] = func(ex *Exec, c *frame, f *ssa.Function, a []Value) Value {
		ex.side["freezeClock"] = true
		return nil
	}
	x["zzsym.SleptNs"] = func(ex *Exec, c *frame, f *ssa.Function, a []Value) Value {
		if s, ok := ex.side["slept"].(Int); ok {
			return s
		}
		return CInt(0, 64)
	}
	x["zzsym.TimeOf"] = func(ex *Exec, c *frame, f *ssa.Function, a []Value) Value { return mkTime(a[0].(Int)) }
}

func (ex *Exec) stackTop() string {
	if ex.curFrame != nil && ex.curFrame.caller != nil {
		fr := ex.curFrame.caller
		line := 0
		if fr.cur != nil {
			line = ex.eng.prog.Fset.Position(fr.cur.Pos()).Line
		}
		return fmt.Sprintf("%s:%d", shortName(fr.fn.String()), line)
	}
	return "?"
}

// sleep models time.Sleep(d): un-interruptible; total time slept is recorded
// so that stop-responsiveness checks can bound it.
func (ex *Exec) sleep(d Int) {
	i64 := types.Typ[types.Int64]
	pos := ex.intBinop(token.GTR, i64, d, CInt(0, 64))
	if !ex.branch(pos) {
		return
	}
	total, _ := ex.side["slept"].(Int)
	if total.W == 0 {
		total = CInt(0, 64)
	}
	ex.side["slept"] = ex.i64(token.ADD, total, d)
	if ml, ok := ex.side["maxSleep"].(Int); ok {
		if ex.branch(ex.intBinop(token.GTR, i64, d, ml)) {
			ex.side["longSleep"] = true
		}
	}
	ex.clock = ex.i64(token.ADD, ex.now(), d).Term()
	ex.fireDueCallbacks()
}
