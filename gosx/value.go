package main

import (
	"fmt"
	"go/types"
	"strings"

	"golang.org/x/tools/go/ssa"
)

// Value model.  Heap shape is concrete (real Go pointers/slices of the
// interpreter); scalars may carry SMT terms.
//
//   Int        integers of every width (T==nil => concrete C)
//   bool / SymBool
//   string / SymStr   (SymStr.T has sort Seq(BV8))
//   float64 / OpaqueFloat
//   *Value     pointers
//   Struct, Array, Slice, *Map, *Chan, Iface, Tuple
//   *ssa.Function, *ssa.Builtin, *Closure

type Value interface{}

type Int struct {
	T *Term
	C uint64
	W uint8
}

type SymBool struct{ T *Term }

// SymStr: a symbolic string.  B != nil: explicit bytes (concrete length,
// symbolic characters; stays in bit-vector logic).  Otherwise T is a term of
// sort Seq(BV8) (unknown length).
type SymStr struct {
	T *Term
	B []Value
}

// strBytesOf returns the explicit bytes of a string value if it has any.
func strBytesOf(v Value) ([]Value, bool) {
	switch v := v.(type) {
	case string:
		out := make([]Value, len(v))
		for i := 0; i < len(v); i++ {
			out[i] = CInt(uint64(v[i]), 8)
		}
		return out, true
	case SymStr:
		if v.B != nil {
			return v.B, true
		}
	}
	return nil, false
}

// mkStrBytes makes a string value from explicit bytes.
func mkStrBytes(bs []Value) Value {
	if c, ok := concBytes(bs); ok {
		return string(c)
	}
	cp := make([]Value, len(bs))
	copy(cp, bs)
	return SymStr{B: cp}
}

type OpaqueFloat struct{}
type Complex struct{ C complex128 }

type Struct []Value
type Array []Value
type Slice []Value
type Tuple []Value

type Iface struct {
	T types.Type
	V Value
}

type Closure struct {
	Fn  *ssa.Function
	Env []Value
}

type Map struct {
	K, V []Value
	KT   types.Type
}

type Chan struct {
	Cap    int
	Buf    []Value
	Closed bool
	Name   string
	// for channels produced by time.After/Timer/Ticker and ctx.Done
	Kind int
	Aux  interface{}
}

type Bad struct{}

// unsafe.Pointer and uintptr-ish opaque
type UnsafePtr struct {
	P *Value
	S []Value // backing bytes for unsafe.SliceData/StringData
}

func mask(w uint8) uint64 {
	if w >= 64 {
		return ^uint64(0)
	}
	return (uint64(1) << w) - 1
}

func CInt(c uint64, w uint8) Int { return Int{C: c & mask(w), W: w} }
func SInt(t *Term) Int {
	return Int{T: t, W: uint8(t.Sort.W)}
}

func (i Int) Term() *Term {
	if i.T != nil {
		return i.T
	}
	return BVConst(i.C, int(i.W))
}

func (i Int) IsConc() bool { return i.T == nil }

// signed view of a concrete Int
func (i Int) S64() int64 {
	sh := 64 - uint(i.W)
	return int64(i.C<<sh) >> sh
}

func boolTerm(v Value) *Term {
	switch v := v.(type) {
	case bool:
		return BoolConst(v)
	case SymBool:
		return v.T
	}
	panic(fmt.Sprintf("boolTerm: %T", v))
}

func mkBool(t *Term) Value {
	switch t.S {
	case "true":
		return true
	case "false":
		return false
	}
	return SymBool{t}
}

func strTerm(v Value) *Term {
	switch v := v.(type) {
	case string:
		return SeqOfString(v)
	case SymStr:
		if v.T != nil {
			return v.T
		}
		parts := make([]*Term, len(v.B))
		for i, b := range v.B {
			parts[i] = SeqUnit(b.(Int).Term())
		}
		return SeqConcat(parts...)
	}
	panic(fmt.Sprintf("strTerm: %T", v))
}

func intWidth(t types.Type) (w uint8, signed bool, ok bool) {
	b, isb := t.Underlying().(*types.Basic)
	if !isb {
		return 0, false, false
	}
	switch b.Kind() {
	case types.Int, types.Int64, types.UntypedInt:
		return 64, true, true
	case types.Int8:
		return 8, true, true
	case types.Int16:
		return 16, true, true
	case types.Int32, types.UntypedRune:
		return 32, true, true
	case types.Uint, types.Uint64, types.Uintptr:
		return 64, false, true
	case types.Uint8:
		return 8, false, true
	case types.Uint16:
		return 16, false, true
	case types.Uint32:
		return 32, false, true
	}
	return 0, false, false
}

func isFloat(t types.Type) bool {
	b, ok := t.Underlying().(*types.Basic)
	return ok && b.Info()&types.IsFloat != 0
}

func isString(t types.Type) bool {
	b, ok := t.Underlying().(*types.Basic)
	return ok && b.Info()&types.IsString != 0
}

func isBoolT(t types.Type) bool {
	b, ok := t.Underlying().(*types.Basic)
	return ok && b.Info()&types.IsBoolean != 0
}

func deref(t types.Type) types.Type {
	if p, ok := t.Underlying().(*types.Pointer); ok {
		return p.Elem()
	}
	panic("deref of non-pointer " + t.String())
}

// zero returns a new zero value of type t.
func zero(t types.Type) Value {
	switch t := t.(type) {
	case *types.Basic:
		if t.Info()&types.IsUntyped != 0 {
			if t.Kind() == types.UntypedNil {
				panic("untyped nil has no zero value")
			}
			t = types.Default(t).(*types.Basic)
		}
		if w, _, ok := intWidth(t); ok {
			return CInt(0, w)
		}
		switch t.Kind() {
		case types.Bool:
			return false
		case types.Float32, types.Float64:
			return float64(0)
		case types.Complex64, types.Complex128:
			return Complex{}
		case types.String:
			return ""
		case types.UnsafePointer:
			return UnsafePtr{}
		}
		panic(fmt.Sprint("zero for unexpected type:", t))
	case *types.Pointer:
		return (*Value)(nil)
	case *types.Array:
		a := make(Array, t.Len())
		for i := range a {
			a[i] = zero(t.Elem())
		}
		return a
	case *types.Named:
		return zero(t.Underlying())
	case *types.Alias:
		return zero(types.Unalias(t))
	case *types.Interface:
		return Iface{}
	case *types.Slice:
		return Slice(nil)
	case *types.Struct:
		s := make(Struct, t.NumFields())
		for i := range s {
			s[i] = zero(t.Field(i).Type())
		}
		return s
	case *types.Tuple:
		if t.Len() == 1 {
			return zero(t.At(0).Type())
		}
		s := make(Tuple, t.Len())
		for i := range s {
			s[i] = zero(t.At(i).Type())
		}
		return s
	case *types.Chan:
		return (*Chan)(nil)
	case *types.Map:
		return (*Map)(nil)
	case *types.Signature:
		return (*ssa.Function)(nil)
	case *types.TypeParam:
		panic("zero of type parameter " + t.String())
	}
	panic(fmt.Sprint("zero: unexpected ", t))
}

// copyVal returns a copy of v (structs and arrays are values in Go).
func copyVal(v Value) Value {
	switch v := v.(type) {
	case Struct:
		c := make(Struct, len(v))
		for i, f := range v {
			c[i] = copyVal(f)
		}
		return c
	case Array:
		c := make(Array, len(v))
		for i, f := range v {
			c[i] = copyVal(f)
		}
		return c
	case Tuple:
		c := make(Tuple, len(v))
		for i, f := range v {
			c[i] = copyVal(f)
		}
		return c
	case Iface:
		return Iface{v.T, copyVal(v.V)}
	}
	return v
}

func load(addr *Value) Value { return copyVal(*addr) }

func store(addr *Value, v Value) {
	// keep the identity of the sub-objects so that pointers into the old
	// value keep pointing into the cell (matches Go semantics of assignment
	// to an addressable struct/array).
	switch nv := v.(type) {
	case Struct:
		if old, ok := (*addr).(Struct); ok && len(old) == len(nv) {
			for i := range nv {
				store(&old[i], nv[i])
			}
			return
		}
	case Array:
		if old, ok := (*addr).(Array); ok && len(old) == len(nv) {
			for i := range nv {
				store(&old[i], nv[i])
			}
			return
		}
	}
	*addr = copyVal(v)
}

// ---- equality (symbolic aware) ----

// eqVal returns bool or SymBool.
func (ex *Exec) eqVal(t types.Type, x, y Value) Value {
	switch x := x.(type) {
	case Int:
		y := y.(Int)
		if x.T == nil && y.T == nil {
			return x.C == y.C
		}
		return mkBool(Eq(x.Term(), y.Term()))
	case bool:
		if yb, ok := y.(bool); ok {
			return x == yb
		}
		return mkBool(Eq(boolTerm(x), boolTerm(y)))
	case SymBool:
		return mkBool(Eq(x.T, boolTerm(y)))
	case string:
		if ys, ok := y.(string); ok {
			return x == ys
		}
		return ex.strEq(x, y)
	case SymStr:
		return ex.strEq(x, y)
	case float64:
		yf, ok := y.(float64)
		if !ok {
			ex.unsupported("comparison of opaque float")
		}
		return x == yf
	case OpaqueFloat:
		ex.unsupported("comparison of opaque float")
	case Complex:
		return x.C == y.(Complex).C
	case *Value:
		return x == y.(*Value)
	case *Map:
		return x == y.(*Map)
	case *Chan:
		return x == y.(*Chan)
	case UnsafePtr:
		return x.P == y.(UnsafePtr).P
	case Struct:
		y := y.(Struct)
		st := t.Underlying().(*types.Struct)
		var acc Value = true
		for i := range x {
			if st.Field(i).Name() == "_" {
				continue
			}
			acc = ex.andVal(acc, ex.eqVal(st.Field(i).Type(), x[i], y[i]))
			if acc == false {
				return false
			}
		}
		return acc
	case Array:
		y := y.(Array)
		et := t.Underlying().(*types.Array).Elem()
		if b, ok := et.Underlying().(*types.Basic); ok && b.Kind() == types.Uint8 && len(x) > 1 {
			return ex.bytesEq(x, y)
		}
		var acc Value = true
		for i := range x {
			acc = ex.andVal(acc, ex.eqVal(et, x[i], y[i]))
			if acc == false {
				return false
			}
		}
		return acc
	case Iface:
		y := y.(Iface)
		if x.T == nil || y.T == nil {
			return x.T == nil && y.T == nil
		}
		if !types.Identical(x.T, y.T) {
			return false
		}
		if !types.Comparable(x.T) {
			panic(targetPanic{Iface{ex.runtimeErrorString(), "runtime error: comparing uncomparable type " + x.T.String()}})
		}
		return ex.eqVal(x.T, x.V, y.V)
	case *ssa.Function:
		// only comparison against nil is legal
		if yf, ok := y.(*ssa.Function); ok {
			return x == yf
		}
		return false
	case *Closure:
		if yf, ok := y.(*ssa.Function); ok && yf == nil {
			return false
		}
		return x == y
	case *ssa.Builtin:
		return false
	case Slice:
		// only nil comparison
		ys := y.(Slice)
		if ys == nil {
			return x == nil
		}
		if x == nil {
			return ys == nil
		}
		panic("slice comparison")
	case RType:
		return types.Identical(x.T, y.(RType).T)
	}
	panic(fmt.Sprintf("eqVal: unhandled %T (%v)", x, t))
}

func (ex *Exec) strEq(x, y Value) Value {
	xb, xok := strBytesOf(x)
	yb, yok := strBytesOf(y)
	if xok && yok {
		return ex.bytesEq(xb, yb)
	}
	if xok || yok {
		// one side has a concrete length: compare length first (keeps the
		// sequence solver out of the common mismatch case)
	}
	return mkBool(Eq(strTerm(x), strTerm(y)))
}

func (ex *Exec) andVal(a, b Value) Value {
	if ab, ok := a.(bool); ok {
		if !ab {
			return false
		}
		return b
	}
	if bb, ok := b.(bool); ok {
		if !bb {
			return false
		}
		return a
	}
	return mkBool(And(boolTerm(a), boolTerm(b)))
}

func (ex *Exec) orVal(a, b Value) Value {
	if ab, ok := a.(bool); ok {
		if ab {
			return true
		}
		return b
	}
	if bb, ok := b.(bool); ok {
		if bb {
			return true
		}
		return a
	}
	return mkBool(Or(boolTerm(a), boolTerm(b)))
}

func notVal(a Value) Value {
	if ab, ok := a.(bool); ok {
		return !ab
	}
	return mkBool(Not(boolTerm(a)))
}

// RType is the interpreter's reflect.Type stand-in.
type RType struct{ T types.Type }

// toString for diagnostics.
func valString(v Value) string {
	var sb strings.Builder
	writeVal(&sb, v, 0)
	return sb.String()
}

func writeVal(sb *strings.Builder, v Value, depth int) {
	if depth > 4 {
		sb.WriteString("…")
		return
	}
	switch v := v.(type) {
	case nil:
		sb.WriteString("<nil>")
	case Int:
		if v.T != nil {
			fmt.Fprintf(sb, "‹%s›", trunc(v.T.S, 40))
		} else {
			fmt.Fprintf(sb, "%d", v.C)
		}
	case bool:
		fmt.Fprintf(sb, "%v", v)
	case SymBool:
		fmt.Fprintf(sb, "‹%s›", trunc(v.T.S, 40))
	case string:
		fmt.Fprintf(sb, "%q", v)
	case SymStr:
		if v.B != nil {
			fmt.Fprintf(sb, "‹str[%d]›", len(v.B))
		} else {
			fmt.Fprintf(sb, "‹str %s›", trunc(v.T.S, 40))
		}
	case float64:
		fmt.Fprintf(sb, "%g", v)
	case *Value:
		if v == nil {
			sb.WriteString("nilptr")
		} else {
			sb.WriteString("&")
			writeVal(sb, *v, depth+1)
		}
	case Struct:
		sb.WriteString("{")
		for i, f := range v {
			if i > 0 {
				sb.WriteString(" ")
			}
			writeVal(sb, f, depth+1)
		}
		sb.WriteString("}")
	case Array:
		sb.WriteString("[")
		for i, f := range v {
			if i > 0 {
				sb.WriteString(" ")
			}
			if i > 8 {
				sb.WriteString("…")
				break
			}
			writeVal(sb, f, depth+1)
		}
		sb.WriteString("]")
	case Slice:
		if v == nil {
			sb.WriteString("nil[]")
			return
		}
		sb.WriteString("[]{")
		for i, f := range v {
			if i > 0 {
				sb.WriteString(" ")
			}
			if i > 8 {
				sb.WriteString("…")
				break
			}
			writeVal(sb, f, depth+1)
		}
		sb.WriteString("}")
	case Iface:
		if v.T == nil {
			sb.WriteString("nil-iface")
		} else {
			fmt.Fprintf(sb, "(%s)", v.T)
			writeVal(sb, v.V, depth+1)
		}
	case Tuple:
		sb.WriteString("(")
		for i, f := range v {
			if i > 0 {
				sb.WriteString(", ")
			}
			writeVal(sb, f, depth+1)
		}
		sb.WriteString(")")
	case *ssa.Function:
		if v == nil {
			sb.WriteString("nilfunc")
		} else {
			sb.WriteString(v.String())
		}
	case *Closure:
		sb.WriteString("closure:" + v.Fn.String())
	case *Map:
		if v == nil {
			sb.WriteString("nilmap")
		} else {
			fmt.Fprintf(sb, "map[%d]", len(v.K))
		}
	case *Chan:
		if v == nil {
			sb.WriteString("nilchan")
		} else {
			fmt.Fprintf(sb, "chan(%d/%d)", len(v.Buf), v.Cap)
		}
	default:
		fmt.Fprintf(sb, "%T", v)
	}
}

func trunc(s string, n int) string {
	if len(s) > n {
		return s[:n] + "…"
	}
	return s
}
