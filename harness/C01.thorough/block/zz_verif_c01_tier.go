package block

var (
	zzC01StepTxs   = 3
	zzC01FailSteps = 2
)
