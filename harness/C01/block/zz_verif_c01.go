package block

import (
	"bytes"
	"context"

	"github.com/evstack/ev-node/internal/zzsym"
	"github.com/evstack/ev-node/types"
)

type zzPre struct {
	H       uint64
	st      types.State
	prev    *zzSlot
	hbN     int
	dbN     int
	execN   int
	storeSt types.State
}

func zzSnap(e *zzEnv, m *Manager) zzPre {
	p := zzPre{H: e.store.height, st: m.lastState, prev: e.store.blocks[e.store.height], hbN: len(e.hb.got), dbN: len(e.db.got), execN: len(e.exec.calls), storeSt: e.store.state}
	return p
}

// zzCheckStep asserts the C01 post-conditions of one production step.
func zzCheckStep(e *zzEnv, m *Manager, pre zzPre, err error, ans *zzSeqAnswer, earlyBefore *zzSlot, tag string) bool {
	H := pre.H
	h2 := e.store.height
	zzsym.Assert(h2 == H || h2 == H+1, "height-moves-by-at-most-one")
	if h2 == H {
		// nothing committed: state and chain untouched
		zzsym.Assert(m.lastState.LastBlockHeight == pre.st.LastBlockHeight && bytes.Equal(m.lastState.AppHash, pre.st.AppHash), "no-commit-keeps-state")
		zzsym.Assert(e.store.state.LastBlockHeight == pre.storeSt.LastBlockHeight && bytes.Equal(e.store.state.AppHash, pre.storeSt.AppHash), "no-commit-keeps-persisted-state")
		if pre.prev != nil {
			cur := e.store.blocks[H]
			zzsym.Assert(cur != nil && bytes.Equal(cur.header.Hash(), pre.prev.header.Hash()), "no-commit-keeps-tip")
		}
		zzsym.Assert(len(e.hb.got) == pre.hbN && len(e.db.got) == pre.dbN, "no-commit-no-broadcast")
		return false
	}
	zzsym.Reach("committed" + tag)
	sl := e.store.blocks[H+1]
	zzsym.Assert(sl != nil, "committed-block-stored")
	if sl == nil {
		return true
	}
	hd, d := sl.header, sl.data
	zzsym.Assert(hd.Height() == H+1, "height-plus-one")
	zzsym.Assert(hd.ChainID() == e.chainID, "chain-id")
	zzsym.Assert(bytes.Equal(hd.ProposerAddress, e.addr), "proposer-address")
	if pre.prev != nil {
		zzsym.Assert(bytes.Equal(hd.LastHeaderHash, pre.prev.header.Hash()), "links-previous-header-hash")
		zzsym.Assert(hd.BaseHeader.Time >= pre.prev.header.BaseHeader.Time, "time-not-before-predecessor")
	}
	// transactions: exactly the batch this block was built from
	if earlyBefore != nil {
		zzsym.Assert(zzTxsEqual(d.Txs, zzRaw(earlyBefore.data.Txs)), "txs-are-the-early-saved-block's")
	} else if ans != nil {
		zzsym.Assert(zzTxsEqual(d.Txs, ans.txs), "txs-are-the-batch-in-order")
	}
	if len(d.Txs) == 0 {
		zzsym.Assert(bytes.Equal(hd.DataHash, dataHashForEmptyTxs), "empty-block-data-hash")
	} else {
		zzsym.Assert(bytes.Equal(hd.DataHash, (&types.Data{Txs: d.Txs}).DACommitment()), "data-hash-commits-to-txs")
	}
	zzsym.Assert(bytes.Equal(hd.AppHash, pre.st.AppHash), "delayed-app-hash-is-previous-root")
	zzsym.Assert(e.zzVerifies(hd), "signed-by-genesis-proposer")
	zzsym.Assert(bytes.Equal(sl.sig, hd.Signature), "stored-signature-is-header-signature")
	// the validation a full node applies (literally the same function)
	zzsym.Assert(m.execValidate(pre.st, zzCopyHeader(hd), zzCopyData(d)) == nil, "passes-full-node-validation")
	// executed exactly once on the previous root; the new root is recorded
	zzsym.Assert(len(e.exec.calls) == pre.execN+1, "executed-exactly-once")
	if len(e.exec.calls) == pre.execN+1 {
		c := e.exec.calls[pre.execN]
		zzsym.Assert(c.height == H+1 && bytes.Equal(c.prevRoot, pre.st.AppHash) && zzTxsEqual(d.Txs, c.txs), "executed-this-block-on-previous-root")
		zzsym.Assert(bytes.Equal(m.lastState.AppHash, c.root), "state-root-is-execution-result")
	}
	zzsym.Assert(m.lastState.LastBlockHeight == H+1 && e.store.state.LastBlockHeight == H+1, "state-height-advanced")
	zzsym.Assert(bytes.Equal(e.store.state.AppHash, m.lastState.AppHash), "persisted-state-equals-memory")
	zzsym.Assert(m.lastState.LastBlockTime.Equal(hd.Time()), "state-time-is-block-time")
	if err == nil {
		zzsym.Assert(len(e.hb.got) == pre.hbN+1 && len(e.db.got) == pre.dbN+1, "broadcast-once")
		if len(e.hb.got) == pre.hbN+1 {
			zzsym.Assert(bytes.Equal(e.hb.got[pre.hbN].Hash(), hd.Hash()), "broadcast-header-is-committed-header")
		}
	}
	return true
}

// ZZ_C01_step: ONE production step from an arbitrary invariant state (chain of
// any length, any initial height) with an arbitrary sequencer answer and an
// arbitrary executor outcome, in normal or lazy mode, with or without a
// pending limit.  Induction step of C01.
func ZZ_C01_step() {
	zzsym.FreezeClock()
	I, H := zzHeights()
	e := zzNewEnv(I)
	m, _ := zzInvState(e, H)
	m.config.Node.LazyMode = zzsym.Bool("lazy")
	ans := zzSeqAny("a.", zzC01StepTxs)
	e.seq.script = []zzSeqAnswer{ans}
	e.exec.failExec = zzsym.Bool("execfails")
	pre := zzSnap(e, m)
	err := m.publishBlockInternal(context.Background())
	if zzCheckStep(e, m, pre, err, &ans, nil, "") {
		zzsym.Assert(e.seq.calls == 1, "one-batch-per-block")
	}
	zzsym.ObserveU64("moved", e.store.height-H)
}

// ZZ_C01_two_steps: a first step with arbitrary answers (it may fail after the
// early save and leave a block at H+1 behind), then a second arbitrary step.
// Safety of the second step from every state the first can leave.
func ZZ_C01_two_steps() {
	zzsym.FreezeClock()
	I, H := zzHeights()
	e := zzNewEnv(I)
	m, _ := zzInvState(e, H)
	a1 := zzSeqAny("a1.", 1)
	a2 := zzSeqAny("a2.", 1)
	e.seq.script = []zzSeqAnswer{a1, a2}
	e.exec.failExec = zzsym.Bool("execfails1")
	pre := zzSnap(e, m)
	err := m.publishBlockInternal(context.Background())
	if zzCheckStep(e, m, pre, err, &a1, nil, "-1") {
		return // committed in step 1: covered by ZZ_C01_step
	}
	early := e.store.blocks[H+1]
	e.exec.failExec = zzsym.Bool("execfails2")
	pre = zzSnap(e, m)
	calls := e.seq.calls
	err = m.publishBlockInternal(context.Background())
	var ans *zzSeqAnswer
	if e.seq.calls > calls {
		ans = &a2
	}
	zzCheckStep(e, m, pre, err, ans, early, "-2")
}

// ZZ_C01_recover: no permanent wedge.  After an arbitrary (possibly failing)
// first step, a well-formed environment -- the sequencer answers with a batch
// (possibly empty) stamped not earlier than the chain tip, the executor
// works -- always produces the next block.
func ZZ_C01_recover() {
	zzsym.FreezeClock()
	I, H := zzHeights()
	e := zzNewEnv(I)
	m, tip := zzInvState(e, H)
	// zzC01FailSteps arbitrary (possibly failing) steps first
	var script []zzSeqAnswer
	stampedBefore := false
	for i := 0; i < zzC01FailSteps; i++ {
		a := zzSeqAny("a1.", 1)
		script = append(script, a)
		stampedBefore = stampedBefore || (!a.err && !a.nilResp && a.ts.Before(tip.header.Time()))
	}
	a2 := zzSeqAny("a2.", 1)
	// well-formed: a batch is present (possibly empty) and not stamped before the tip
	zzsym.Assume(!a2.err && !a2.nilResp && !a2.nilBatch)
	zzsym.Assume(!a2.ts.Before(tip.header.Time()))
	e.seq.script = append(script, a2)
	// known-finding regions (see known_findings.json)
	zzsym.Region("first-answer-stamped-before-tip", stampedBefore)
	for i := 0; i < zzC01FailSteps; i++ {
		e.exec.failExec = zzsym.Bool("execfails1")
		_ = m.publishBlockInternal(context.Background())
		if e.store.height != H {
			return
		}
	}
	zzsym.Reach("first-step-did-not-commit")
	// (a step that found a block saved early did not ask for a batch: the next answer is the well-formed one in any case)
	e.seq.script = append(e.seq.script[:e.seq.calls:e.seq.calls], a2)
	e.exec.failExec = false
	err := m.publishBlockInternal(context.Background())
	zzsym.Assert(err == nil, "well-formed-step-returns-nil")
	zzsym.Assert(e.store.height == H+1, "well-formed-step-produces-a-block")
}

// ZZ_C01_genesis: history of length zero.  The real NewManager on an empty
// store (any initial height), then the first production step.
func ZZ_C01_genesis() {
	zzsym.FreezeClock()
	I := zzsym.U64("I")
	zzsym.Assume(I >= 1 && I <= 1<<40)
	e := zzNewEnv(I)
	m, err := NewManager(context.Background(), e.signer, e.cfg, e.gen, e.store, e.exec, e.seq, nil, m0logger(), nil, nil, e.hb, e.db, NopMetrics(), 1, 1, DefaultManagerOptions())
	zzsym.Assert(err == nil, "new-manager-on-empty-store")
	if err != nil {
		return
	}
	a := zzSeqAny("a.", 1)
	zzsym.Assume(!a.err && !a.nilResp)
	e.seq.script = []zzSeqAnswer{a, a}
	zzsym.Assert(e.store.height == I-1, "initial-chain-height")
	err = m.publishBlockInternal(context.Background())
	zzsym.Assert(err == nil, "first-step-returns-nil")
	zzsym.Assert(e.store.height == I, "first-block-at-initial-height")
	sl := e.store.blocks[I]
	if sl != nil && e.store.height == I {
		zzsym.Reach("first-block")
		zzsym.Assert(sl.header.Height() == I, "first-block-height")
		zzsym.Assert(e.zzVerifies(sl.header), "first-block-signed")
		zzsym.Assert(bytes.Equal(sl.header.AppHash, e.exec.initRoot), "first-block-app-hash-is-genesis-root")
	}
}
