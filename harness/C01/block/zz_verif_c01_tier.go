package block

// txs per batch in the single-step lemma: quick 0..2, thorough 0..3; arbitrary steps before the well-formed one in recover: quick 1, thorough 2
var (
	zzC01StepTxs   = 2
	zzC01FailSteps = 1
)
