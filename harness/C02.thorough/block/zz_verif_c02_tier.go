package block

var zzC02Len = 3
var zzC02SymbolicDA = true
