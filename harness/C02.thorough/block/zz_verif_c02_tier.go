package block

var zzC02Len = 2
var zzC02SymbolicDA = true

// clean_restart: are the parts delivered before the stop offered again after it (quick: no; thorough: either)
var zzC02Redeliver = true
