package block

var zzC02Len = 3
