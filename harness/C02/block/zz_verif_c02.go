package block

import (
	"bytes"
	"context"
	"errors"

	"github.com/evstack/ev-node/internal/zzsym"
)

// ZZ_C02_deliveries: the real SyncLoop fed with every sequence of up to
// zzC02Len header events and zzC02Len data events for the proposer's next two
// blocks (any order inside each channel, duplicates included, either block
// empty or not, equal tx lists possible), the two channels interleaved in
// every possible way by the select.  After all events are consumed the node
// is exactly at the proposer's chain up to the last height for which it has
// received both parts of every block.
func ZZ_C02_deliveries() {
	zzsym.FreezeClock()
	zzsym.FreezeTimers()
	e, m, ex, H, P, roots := zzFullNode(2)
	zzC02Run(e, m, ex, H, P, roots, false)
}

// ZZ_C02_fresh_deliveries: the same for a node that has not applied any block
// yet (first start through the real NewManager on an empty store, any initial
// height: its store holds the locally built unsigned genesis block) and the
// proposer's first two blocks.
func ZZ_C02_fresh_deliveries() {
	zzsym.FreezeClock()
	zzsym.FreezeTimers()
	e, m, ex, H, P, roots := zzFreshFullNode(2)
	zzC02Run(e, m, ex, H, P, roots, true)
}

func zzC02Run(e *zzEnv, m *Manager, ex *zzDetExec, H uint64, P []*zzSlot, roots [][]byte, fresh bool) {
	equalTxs := len(P[0].data.Txs) > 0 && len(P[1].data.Txs) > 0 && bytes.Equal(P[0].data.Txs[0], P[1].data.Txs[0])
	zzsym.Region("two-blocks-with-equal-tx-lists", equalTxs)
	gotH, gotD := []bool{false, false}, []bool{false, false}
	// where the four blobs are on the DA layer (any heights not below the
	// height the node's persisted scan position)
	scan0 := uint64(3)
	hAt, dAt := []uint64{5, 6}, []uint64{9, 8}
	if fresh {
		scan0 = 0 // nothing recorded yet: the scan starts at the configured DA start height (0)
	}
	if zzC02SymbolicDA {
		if !fresh {
			scan0 = zzsym.U64("scan0")
		}
		zzsym.Assume(scan0 < 1<<40)
		hAt = []uint64{zzsym.U64("h1at"), zzsym.U64("h2at")}
		dAt = []uint64{zzsym.U64("d1at"), zzsym.U64("d2at")}
		for k := 0; k < 2; k++ {
			zzsym.Assume(hAt[k] >= scan0 && hAt[k] < 1<<41 && dAt[k] >= scan0 && dAt[k] < 1<<41)
		}
	}
	if !fresh {
		m.lastState.DAHeight = scan0
		e.store.state.DAHeight = scan0
	}
	nh := zzsym.Pick("nheaders", zzC02Len+1)
	for i := 0; i < nh; i++ {
		k := zzsym.Pick("hdr", 2)
		gotH[k] = true
		m.headerInCh <- NewHeaderEvent{zzCopyHeader(P[k].header), hAt[k]}
	}
	nd := zzsym.Pick("ndata", zzC02Len+1)
	for i := 0; i < nd; i++ {
		k := zzsym.Pick("dat", 2)
		gotD[k] = true
		m.dataInCh <- NewDataEvent{zzCopyData(P[k].data), dAt[k]}
	}
	ctx, cancel := context.WithCancel(context.Background())
	errCh := make(chan error, 4)
	zzsym.OnIdle(cancel)
	m.SyncLoop(ctx, errCh)
	cancel()
	zzsym.Assert(len(errCh) == 0, "genuine-traffic-never-stops-sync")
	zzsym.Assert(len(m.headerInCh) == 0 && len(m.dataInCh) == 0, "all-events-consumed")

	want := H
	for k := 0; k < 2; k++ {
		if gotH[k] && (len(P[k].data.Txs) == 0 || gotD[k]) {
			want++
		} else {
			break
		}
	}
	got := e.store.height
	zzsym.ObserveU64("applied", got-H)
	zzsym.Assert(got >= H, "height-never-decreases")
	zzsym.Assert(got <= want, "never-applies-a-block-without-both-parts")
	zzsym.Assert(got >= want, "applies-every-block-whose-parts-all-arrived")
	// exactly the proposer's chain
	zzsym.Assert(uint64(len(ex.calls)) == got-H, "executes-each-applied-block-once")
	for k := 0; uint64(k) < got-H && k < 2; k++ {
		h := H + uint64(k) + 1
		sl := e.store.blocks[h]
		zzsym.Assert(sl != nil && bytes.Equal(sl.header.Hash(), P[k].header.Hash()), "same-header-hash-as-proposer")
		zzsym.Assert(sl != nil && zzTxsEqual(sl.data.Txs, zzRaw(P[k].data.Txs)), "same-transactions-as-proposer")
		if k < len(ex.calls) {
			zzsym.Assert(ex.calls[k].height == h, "blocks-applied-in-height-order")
		}
	}
	zzRestartScan(e, got, H, hAt, dAt, P)
	if got > H {
		zzsym.Reach("applied")
		zzsym.Assert(bytes.Equal(m.lastState.AppHash, roots[got-H-1]), "same-state-root-as-proposer")
		zzsym.Assert(m.lastState.LastBlockHeight == got && e.store.state.LastBlockHeight == got, "state-height-is-chain-height")
	}
}

// zzRestartScan: a clean stop and restart (the real NewManager on the
// persisted image) must resume the DA scan at or below every DA height that
// still holds a blob of a block the node has not applied yet -- otherwise
// those blobs are never read again and the node cannot converge.
func zzRestartScan(e *zzEnv, got, H uint64, hAt, dAt []uint64, P []*zzSlot) {
	e2 := *e
	e2.store = e.store.reopen()
	m2, err := NewManager(context.Background(), nil, e.cfg, e.gen, e2.store, &zzDetExec{}, e.seq, nil, m0logger(), nil, nil, e.hb, e.db, NopMetrics(), 1, 1, DefaultManagerOptions())
	zzsym.Assert(err == nil, "restart-after-clean-stop")
	if err != nil {
		return
	}
	resume := m2.daHeight.Load()
	for k := 0; k < 2; k++ {
		if H+uint64(k)+1 > got {
			zzsym.Assert(resume <= hAt[k], "restart-rescans-da-heights-of-unapplied-headers")
			if len(P[k].data.Txs) > 0 {
				zzsym.Assert(resume <= dAt[k], "restart-rescans-da-heights-of-unapplied-data")
			}
		}
	}
}

// ZZ_C02_clean_restart: delivery interrupted by a clean stop.  Any subset of
// the four parts of the proposer's next two blocks is delivered, the node is
// stopped cleanly (the real SaveCache writes the caches), started again (real
// NewManager, which loads them), and the remaining parts -- optionally also
// the earlier ones again -- are delivered.  The node ends exactly at the
// proposer's chain: nothing that arrived before the stop is forgotten or
// wrongly remembered as done.  (Cache files through the gob model, DESIGN 9.1.)
func ZZ_C02_clean_restart() {
	zzsym.FreezeClock()
	zzsym.FreezeTimers()
	e, m, ex, H, P, roots := zzFullNode(2)
	equalTxs := len(P[0].data.Txs) > 0 && len(P[1].data.Txs) > 0 && bytes.Equal(P[0].data.Txs[0], P[1].data.Txs[0])
	zzsym.Assume(!equalTxs) // equal tx lists: known finding C02-K1
	hAt, dAt := []uint64{5, 6}, []uint64{9, 8}
	first := []bool{zzsym.Bool("early"), zzsym.Bool("early"), zzsym.Bool("early"), zzsym.Bool("early")} // h1 h2 d1 d2
	again := zzC02Redeliver && zzsym.Bool("redeliver-early-parts")
	offer := func(m *Manager, phase int) {
		for k := 0; k < 2; k++ {
			if (phase == 1) == first[k] || (phase == 2 && again) {
				m.headerInCh <- NewHeaderEvent{zzCopyHeader(P[k].header), hAt[k]}
			}
		}
		for k := 0; k < 2; k++ {
			if len(P[k].data.Txs) == 0 {
				continue
			}
			if (phase == 1) == first[2+k] || (phase == 2 && again) {
				m.dataInCh <- NewDataEvent{zzCopyData(P[k].data), dAt[k]}
			}
		}
	}
	run := func(m *Manager) {
		ctx, cancel := context.WithCancel(context.Background())
		errCh := make(chan error, 4)
		zzsym.OnIdle(cancel)
		m.SyncLoop(ctx, errCh)
		cancel()
		zzsym.Assert(len(errCh) == 0, "genuine-traffic-never-stops-sync")
		zzsym.Assert(len(m.headerInCh) == 0 && len(m.dataInCh) == 0, "all-events-consumed")
	}
	offer(m, 1)
	run(m)
	mid := e.store.height
	zzsym.Assert(m.SaveCache() == nil, "clean-stop-saves-the-caches")
	e.store = e.store.reopen()
	m2, err := NewManager(context.Background(), nil, e.cfg, e.gen, e.store, ex, e.seq, nil, m0logger(), nil, nil, e.hb, e.db, NopMetrics(), 1, 1, DefaultManagerOptions())
	zzsym.Assert(err == nil, "restart-after-clean-stop")
	if err != nil {
		return
	}
	zzsym.Assert(e.store.height == mid, "restart-keeps-the-chain-height")
	offer(m2, 2)
	run(m2)
	zzsym.ObserveU64("applied-before-stop", mid-H)
	zzsym.Assert(e.store.height == H+2, "applies-every-block-whose-parts-all-arrived")
	zzsym.Assert(len(ex.calls) == 2, "executes-each-applied-block-once")
	for k := 0; k < 2; k++ {
		sl := e.store.blocks[H+uint64(k)+1]
		zzsym.Assert(sl != nil && bytes.Equal(sl.header.Hash(), P[k].header.Hash()), "same-header-hash-as-proposer")
		zzsym.Assert(sl != nil && zzTxsEqual(sl.data.Txs, zzRaw(P[k].data.Txs)), "same-transactions-as-proposer")
	}
	zzsym.Assert(bytes.Equal(m2.lastState.AppHash, roots[1]) && m2.lastState.LastBlockHeight == H+2, "same-state-root-as-proposer")
	zzsym.Reach("converged-after-clean-restart")
}

// ZZ_C02_stop_inside_run: a clean stop that lands inside a catch-up run.  The
// proposer's block H+2 is buffered (both parts) before block H+1 completes, so
// completing H+1 starts a run over both; the stop request arrives while the
// first or the second block of the run executes (or not at all).  The caches
// are saved (real SaveCache), the node restarts (real NewManager), the earlier
// parts are optionally delivered again, and block H+3 arrives.  The node ends
// at the proposer's chain at H+3.
func ZZ_C02_stop_inside_run() {
	zzsym.FreezeClock()
	zzsym.FreezeTimers()
	e, m, ex, H, P, roots := zzFullNode(3)
	// H+1 carries a transaction (its data arrives last and starts the run), H+2 and H+3 are empty
	zzsym.Assume(len(P[0].data.Txs) > 0 && len(P[1].data.Txs) == 0 && len(P[2].data.Txs) == 0)
	at := []uint64{5, 6, 7}
	offer := func(m *Manager, k int) {
		m.headerInCh <- NewHeaderEvent{zzCopyHeader(P[k].header), at[k]}
		if len(P[k].data.Txs) > 0 {
			m.dataInCh <- NewDataEvent{zzCopyData(P[k].data), at[k]}
		}
	}
	ctx, cancel := context.WithCancel(context.Background())
	stopAt := zzsym.Pick("stop-during-execution-number", 3) // 0: no stop inside the run
	ex.onExec = func(n int) {
		if n == stopAt {
			cancel()
		}
	}
	// block H+2 first (buffered), then block H+1: the run starts
	offer(m, 1)
	offer(m, 0)
	errCh := make(chan error, 4)
	zzsym.OnIdle(cancel)
	m.SyncLoop(ctx, errCh)
	cancel()
	for len(errCh) > 0 {
		err := <-errCh
		zzsym.Assert(stopAt != 0 && errors.Is(err, context.Canceled), "only-the-stop-request-ends-sync")
	}
	for len(m.headerInCh) > 0 {
		<-m.headerInCh
	}
	for len(m.dataInCh) > 0 {
		<-m.dataInCh
	}
	mid := e.store.height
	zzsym.ObserveU64("applied-before-stop", mid-H)
	zzsym.Assert(m.SaveCache() == nil, "clean-stop-saves-the-caches")
	e.store = e.store.reopen()
	ex.onExec = nil
	m2, err := NewManager(context.Background(), nil, e.cfg, e.gen, e.store, ex, e.seq, nil, m0logger(), nil, nil, e.hb, e.db, NopMetrics(), 1, 1, DefaultManagerOptions())
	zzsym.Assert(err == nil, "restart-after-clean-stop")
	if err != nil {
		return
	}
	if zzsym.Bool("redeliver-early-parts") {
		offer(m2, 1)
		offer(m2, 0)
	}
	offer(m2, 2)
	ctx2, cancel2 := context.WithCancel(context.Background())
	errCh2 := make(chan error, 4)
	zzsym.OnIdle(cancel2)
	m2.SyncLoop(ctx2, errCh2)
	cancel2()
	zzsym.Assert(len(errCh2) == 0, "genuine-traffic-never-stops-sync")
	zzsym.Assert(e.store.height == H+3, "applies-every-block-whose-parts-all-arrived")
	for k := 0; k < 3; k++ {
		sl := e.store.blocks[H+uint64(k)+1]
		zzsym.Assert(sl != nil && bytes.Equal(sl.header.Hash(), P[k].header.Hash()), "same-header-hash-as-proposer")
	}
	zzsym.Assert(bytes.Equal(m2.lastState.AppHash, roots[2]) && m2.lastState.LastBlockHeight == H+3, "same-state-root-as-proposer")
	zzsym.Reach("converged-after-stop-inside-run")
}
