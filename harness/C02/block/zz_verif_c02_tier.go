package block

// events per channel: 2 (3 was tried for the thorough tier: does not finish in 90 min); DA heights of the blobs: quick fixed (5,9,6,8 above scan position 3), thorough arbitrary
var zzC02Len = 2
var zzC02SymbolicDA = false

// clean_restart: are the parts delivered before the stop offered again after it (quick: no; thorough: either)
var zzC02Redeliver = false
