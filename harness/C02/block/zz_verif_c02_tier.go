package block

// events per channel: quick 2, thorough 3; DA heights of the blobs: quick fixed (5,9,6,8 above scan position 3), thorough arbitrary
var zzC02Len = 2
var zzC02SymbolicDA = false

// clean_restart: are the parts delivered before the stop offered again after it (quick: no; thorough: either)
var zzC02Redeliver = false
