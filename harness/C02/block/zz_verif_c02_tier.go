package block

// events per channel: quick 2, thorough 3
var zzC02Len = 2
