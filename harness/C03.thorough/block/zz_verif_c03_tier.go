package block

var zzC03TxBytes = 3
