package block

import (
	"bytes"
	"context"
	crand "crypto/rand"

	goheader "github.com/celestiaorg/go-header"
	"github.com/libp2p/go-libp2p/core/crypto"

	"github.com/evstack/ev-node/internal/zzsym"
	"github.com/evstack/ev-node/types"
)

// zzThirdParty: what someone without the proposer's private key can build
// from a genuine block at height H+1: every header field may be altered, the
// signer record carries the proposer's key or the party's own key, the
// address is the proposer's or another one, and the signature is the genuine
// one (copied), the party's own signature over the item, or empty.  (A
// signature that verifies under the proposer's key over altered bytes would
// be a forgery; the check never needs to assume that it cannot exist.)
type zzParty struct {
	priv crypto.PrivKey
	pub  crypto.PubKey
}

func zzNewParty() zzParty {
	priv, pub, err := crypto.GenerateEd25519Key(crand.Reader)
	if err != nil {
		panic(err)
	}
	return zzParty{priv, pub}
}

func zzOfferedHeader(e *zzEnv, p zzParty, genuine *types.SignedHeader) (*types.SignedHeader, bool) {
	h := zzCopyHeader(genuine)
	altered := false
	switch zzsym.Pick("mut", 6) {
	case 0:
	case 1:
		h.BaseHeader.Time = zzsym.U64("mtime")
		altered = h.BaseHeader.Time != genuine.BaseHeader.Time
	case 2:
		h.DataHash = zzsym.BytesN("mdatahash", 32)
		altered = !bytes.Equal(h.DataHash, genuine.DataHash)
	case 3:
		h.AppHash = zzsym.BytesN("mapphash", 2)
		altered = !bytes.Equal(h.AppHash, genuine.AppHash)
	case 4:
		h.BaseHeader.Height = zzsym.U64("mheight")
		altered = h.BaseHeader.Height != genuine.BaseHeader.Height
	case 5:
		h.BaseHeader.ChainID = "other-chain"
		altered = true
	}
	if zzsym.Bool("ownkey") {
		h.Signer.PubKey = p.pub
	}
	if zzsym.Bool("otheraddress") {
		h.Signer.Address = types.KeyAddress(p.pub)
		if zzsym.Bool("proposerfieldtoo") {
			h.ProposerAddress = h.Signer.Address
		}
	}
	switch zzsym.Pick("sig", 3) {
	case 0: // genuine signature copied
	case 1: // the party's own signature over the offered header
		payload, _ := types.DefaultSignaturePayloadProvider(&h.Header)
		sig, _ := p.priv.Sign(payload)
		h.Signature = sig
	case 2:
		h.Signature = nil
	}
	return h, altered
}

// ZZ_C03_header_gate: G1 -- the admission test used for DA blobs and P2P
// headers accepts an item only if the key inside it is the genesis
// proposer's key (and then its signature verifies under that key).
func ZZ_C03_header_gate() {
	zzsym.FreezeClock()
	e := zzNewEnv(1)
	e.zzChain(4, 1, []bool{true})
	genuine := e.store.blocks[5].header
	p := zzNewParty()
	h, _ := zzOfferedHeader(e, p, genuine)
	m := e.zzManager(types.State{ChainID: e.chainID, InitialHeight: 1, LastBlockHeight: 4})
	h.SetCustomVerifier(m.signaturePayloadProvider)
	keyIsProposers := h.Signer.PubKey != nil && h.Signer.PubKey.Equals(e.pub)
	zzsym.Region("own-key-under-proposer-address", !keyIsProposers)
	if m.isUsingExpectedSingleSequencer(h) {
		zzsym.Reach("admitted")
		zzsym.Assert(keyIsProposers, "admitted-header-carries-the-proposer-key")
		zzsym.Assert(e.zzVerifies(h), "admitted-header-verifies-under-the-proposer-key")
	} else {
		zzsym.Reach("rejected")
	}
}

// ZZ_C03_da_blob: the same through the DA ingress (handlePotentialHeader):
// an item that does not carry the proposer's key is neither marked
// DA-included nor handed to sync, and never panics or blocks.
func ZZ_C03_da_blob() {
	zzsym.FreezeClock()
	e := zzNewEnv(1)
	e.zzChain(4, 1, []bool{true})
	genuine := e.store.blocks[5].header
	p := zzNewParty()
	h, _ := zzOfferedHeader(e, p, genuine)
	keyIsProposers := h.Signer.PubKey != nil && h.Signer.PubKey.Equals(e.pub)
	zzsym.Region("own-key-under-proposer-address", !keyIsProposers)
	m := e.zzManager(types.State{ChainID: e.chainID, InitialHeight: 1, LastBlockHeight: 4})
	// arbitrary earlier traffic: the genuine header may already have been seen
	// (synced over P2P) and/or marked
	if zzsym.Bool("genuine-already-seen") {
		m.headerCache.SetSeen(genuine.Hash().String())
	}
	m.handlePotentialHeader(context.Background(), zzHeaderBlob(h), 9)
	if len(m.headerInCh) > 0 || m.headerCache.IsDAIncluded(h.Hash().String()) {
		zzsym.Reach("taken")
		zzsym.Assert(keyIsProposers, "da-header-taken-only-with-the-proposer-key")
		zzsym.Assert(e.zzVerifies(h), "da-header-taken-only-if-signed-by-the-proposer")
	} else {
		zzsym.Reach("ignored")
	}
}

// ZZ_C03_data_gate: G2 -- signed data from the DA layer.
func ZZ_C03_data_gate() {
	zzsym.FreezeClock()
	e := zzNewEnv(1)
	e.zzChain(4, 1, []bool{true})
	b := e.store.blocks[5]
	p := zzNewParty()
	d := zzCopyData(b.data)
	if zzsym.Bool("altertx") {
		d.Txs = types.Txs{types.Tx(zzsym.BytesN("mtx", zzC03TxBytes))}
	}
	// structurally unusual but decodable third-party material: no metadata section
	noMeta := zzsym.Bool("nometadata")
	if noMeta {
		d.Metadata = nil
	}
	sd := &types.SignedData{Data: *d, Signer: types.Signer{PubKey: e.pub, Address: e.addr}}
	if zzsym.Bool("ownkey") {
		sd.Signer.PubKey = p.pub
	}
	if zzsym.Bool("otheraddress") {
		sd.Signer.Address = types.KeyAddress(p.pub)
	}
	bz, _ := sd.Data.MarshalBinary()
	sigKind := zzsym.Pick("sig", 3)
	// the proposer never signs data without metadata, so a third party has no such signature
	zzsym.Assume(!(noMeta && sigKind == 0))
	switch sigKind {
	case 0:
		sd.Signature, _ = e.signer.Sign(bz) // only possible for unaltered data: see below
	case 1:
		sd.Signature, _ = p.priv.Sign(bz)
	case 2:
		sd.Signature = nil
	}
	genuineSig := zzsym.Pick("sig#dup", 1) == 0 // placeholder to keep names stable
	_ = genuineSig
	keyIsProposers := sd.Signer.PubKey.Equals(e.pub)
	zzsym.Region("own-key-under-proposer-address", !keyIsProposers)
	m := e.zzManager(types.State{ChainID: e.chainID, InitialHeight: 1, LastBlockHeight: 4})
	blob, _ := sd.MarshalBinary()
	m.handlePotentialData(context.Background(), blob, 9)
	if len(m.dataInCh) > 0 || m.dataCache.IsDAIncluded(sd.Data.DACommitment().String()) {
		zzsym.Reach("taken")
		zzsym.Assert(keyIsProposers, "da-data-taken-only-with-the-proposer-key")
	} else {
		zzsym.Reach("ignored")
	}
}

// ZZ_C03_light_node: G3 -- what go-header v0.6.6 runs on every gossiped
// header before storing and serving it: h.Validate() (subscriber.go:214) and
// trusted.Verify(h) (verify.go:60).  An item passing both carries the
// proposer's key and a signature that verifies under it.
func ZZ_C03_light_node() {
	zzsym.FreezeClock()
	e := zzNewEnv(1)
	e.zzChain(4, 2, []bool{true, true})
	trusted, genuine := e.store.blocks[5].header, e.store.blocks[6].header
	p := zzNewParty()
	h, _ := zzOfferedHeader(e, p, genuine)
	var iface goheader.Header[*types.SignedHeader] = h
	keyIsProposers := h.Signer.PubKey != nil && h.Signer.PubKey.Equals(e.pub)
	zzsym.Region("own-key-under-proposer-address", !keyIsProposers)
	zzsym.Region("no-signature", len(h.Signature) == 0)
	if iface.Validate() == nil && trusted.Verify(h) == nil {
		zzsym.Reach("stored")
		zzsym.Assert(keyIsProposers, "light-node-stores-only-headers-with-the-proposer-key")
		zzsym.Assert(e.zzVerifies(h), "light-node-stores-only-headers-signed-by-the-proposer")
	} else {
		zzsym.Reach("dropped")
	}
}

// ZZ_C03_apply_binds_data: G4 -- unsigned P2P data can only ride on a signed
// header: if validation passes, the data commits to the header's data hash.
func ZZ_C03_apply_binds_data() {
	zzsym.FreezeClock()
	e := zzNewEnv(1)
	// the proposer's block is empty or carries one transaction
	genuineNonEmpty := zzsym.Bool("genuine-nonempty")
	e.zzChain(4, 1, []bool{genuineNonEmpty})
	b := e.store.blocks[5]
	// what a third party delivers over P2P for that height: unsigned data with 0..1
	// transactions, metadata absent, arbitrary, or copied from the public header
	d := &types.Data{}
	if zzsym.Bool("offered-nonempty") {
		d.Txs = types.Txs{types.Tx(zzsym.BytesN("ptx", zzC03TxBytes))}
	}
	switch zzsym.Pick("meta", 3) {
	case 1:
		d.Metadata = &types.Metadata{ChainID: e.chainID, Height: zzsym.U64("mh"), Time: zzsym.U64("mt")}
	case 2:
		d.Metadata = &types.Metadata{ChainID: e.chainID, Height: b.header.Height(), Time: b.header.BaseHeader.Time, LastDataHash: b.data.Metadata.LastDataHash}
	}
	m := e.zzManager(types.State{ChainID: e.chainID, InitialHeight: 1, LastBlockHeight: 4, AppHash: b.header.AppHash})
	if m.execValidate(m.lastState, zzCopyHeader(b.header), d) == nil {
		zzsym.Reach("validated")
		zzsym.Assert(zzTxsEqual(d.Txs, zzRaw(b.data.Txs)), "validated-data-is-the-data-the-header-commits-to")
	} else {
		zzsym.Reach("refused")
	}
}
