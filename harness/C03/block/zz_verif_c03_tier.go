package block

// size of a third party's substituted transaction: quick 1 byte, thorough 3
var zzC03TxBytes = 1
