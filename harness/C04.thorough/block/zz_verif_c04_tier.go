package block

var zzC04AllAnswersFree = true
