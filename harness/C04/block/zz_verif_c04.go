package block

import (
	"bytes"
	"context"

	"github.com/evstack/ev-node/internal/zzsym"
	"github.com/evstack/ev-node/types"
)

// zzRestartSequencer: what a new process does -- the real NewManager on the
// durable image (caches empty: no cache files), same signer/genesis/config.
func zzRestartSequencer(e *zzEnv) (*Manager, error) {
	e.store = e.store.reopen()
	return NewManager(context.Background(), e.signer, e.cfg, e.gen, e.store, e.exec, e.seq, nil, m0logger(), nil, nil, e.hb, e.db, NopMetrics(), 1, 1, DefaultManagerOptions())
}

// zzImageConsistent: recorded height, recorded state and stored blocks agree.
func zzImageConsistent(e *zzEnv, lo uint64, tag string) {
	h := e.store.height
	zzsym.Assert(e.store.hasState && e.store.state.LastBlockHeight == h, "recorded-state-height-equals-chain-height")
	for x := lo; x <= h && x < lo+4; x++ {
		_, ok := e.store.blocks[x]
		zzsym.Assert(ok, "every-height-up-to-chain-height-has-a-block")
	}
}

// ZZ_C04_crash: the sequencer dies at an arbitrary durable write of a
// production step (index 0..5: before the first write .. after the last),
// restarts through the real NewManager, may die again at an arbitrary write
// of the first step after the restart (nesting depth 2), restarts again, and
// then runs crash-free with a well-formed environment.
func ZZ_C04_crash() {
	zzsym.FreezeClock()
	I, H := zzHeights()
	e := zzNewEnv(I)
	det := &zzDetExec{}
	m, tip := zzInvState(e, H)
	m.exec = det
	e.exec = &det.zzExec
	zzC04Run(e, m, det, H, int64(tip.header.BaseHeader.Time), H)
}

// ZZ_C04_fresh_crash: the same on a chain of length 0: the sequencer is
// started for the first time (real NewManager on an empty store, any initial
// height) and dies at an arbitrary durable write of its first production step.
func ZZ_C04_fresh_crash() {
	zzsym.FreezeClock()
	I := zzsym.U64("I")
	zzsym.Assume(I >= 1 && I <= 1<<40)
	e := zzNewEnv(I)
	det := &zzDetExec{}
	e.exec = &det.zzExec
	m, err := NewManager(context.Background(), e.signer, e.cfg, e.gen, e.store, e.exec, e.seq, nil, m0logger(), nil, nil, e.hb, e.db, NopMetrics(), 1, 1, DefaultManagerOptions())
	zzsym.Assert(err == nil, "first-start-succeeds")
	if err != nil {
		return
	}
	m.exec = det
	zzC04Run(e, m, det, I-1, e.gen.GenesisDAStartTime.UnixNano(), I)
}

func zzC04Run(e *zzEnv, m *Manager, det *zzDetExec, H uint64, ts int64, lo uint64) {
	mkAns := func(pfx string, k int64) zzSeqAnswer {
		a := zzSeqAnswer{ts: zzsym.TimeOf(ts + k), txs: [][]byte{}}
		if zzsym.Bool(pfx + "nonempty") {
			a.txs = [][]byte{zzsym.BytesN(pfx+"tx", 1)}
		}
		return a
	}
	e.seq.script = []zzSeqAnswer{mkAns("a1.", 1), mkAns("a2.", 2), {ts: zzsym.TimeOf(ts + 3), txs: [][]byte{{7}}}, {ts: zzsym.TimeOf(ts + 4), txs: [][]byte{}}}
	if zzC04AllAnswersFree {
		e.seq.script[2], e.seq.script[3] = mkAns("a3.", 3), mkAns("a4.", 4)
	}
	ctx := context.Background()

	// hashes of blocks that were committed (final save) or published
	committed := map[uint64][]byte{}
	note := func() {
		for _, hd := range e.hb.got {
			committed[hd.Height()] = hd.Hash()
		}
		for x := H + 1; x <= H+3; x++ {
			if sl, ok := e.store.blocks[x]; ok && len(sl.sig) > 0 && e.zzVerifies(sl.header) && x <= e.store.height {
				if old, had := committed[x]; had {
					zzsym.Assert(bytes.Equal(old, sl.header.Hash()), "committed-or-published-block-never-replaced")
				}
				committed[x] = sl.header.Hash()
			}
		}
	}

	e.store.crashAt = zzsym.Pick("crashAt1", 6)
	_ = m.publishBlockInternal(ctx)
	note()
	ahead := e.store.height == e.store.state.LastBlockHeight+1
	m, err := zzRestartSequencer(e)
	zzsym.Assert(err == nil, "restart-1-succeeds")
	if err != nil {
		return
	}
	m.exec = det
	if second := zzsym.Pick("crashAt2", 7); second < 6 {
		zzsym.Reach("second-crash")
		e.store.crashAt = second
		_ = m.publishBlockInternal(ctx)
		note()
		ahead = ahead || e.store.height == e.store.state.LastBlockHeight+1
		m, err = zzRestartSequencer(e)
		zzsym.Assert(err == nil, "restart-2-succeeds")
		if err != nil {
			return
		}
		m.exec = det
	}
	// crash-free from here on
	zzsym.Region("recorded-height-ahead-of-recorded-state", ahead)
	before := e.store.height
	zzsym.Assert(before >= H && before <= H+2, "no-height-skipped-by-crashes")
	err = m.publishBlockInternal(ctx)
	note()
	zzsym.Assert(err == nil, "first-crash-free-step-succeeds")
	zzsym.Assert(e.store.height == before+1, "first-crash-free-step-adds-exactly-one-block")
	zzImageConsistent(e, lo, "")
	// the chain is still hash linked and executed on the right roots
	for x := H + 1; x <= e.store.height; x++ {
		sl, prev := e.store.blocks[x], e.store.blocks[x-1]
		if sl != nil && prev != nil {
			zzsym.Assert(bytes.Equal(sl.header.LastHeaderHash, prev.header.Hash()), "recovered-chain-is-hash-linked")
			zzsym.Assert(e.zzVerifies(sl.header), "recovered-chain-is-signed")
		}
	}
	for _, c := range det.calls {
		if c.height > H+1 {
			// executed on the root produced by the previous height
			var prevRoot []byte
			for _, p := range det.calls {
				if p.height == c.height-1 {
					prevRoot = p.root
				}
			}
			zzsym.Assert(prevRoot != nil && bytes.Equal(c.prevRoot, prevRoot), "never-executes-on-a-stale-root")
		}
	}
	zzsym.Reach("recovered")
	_ = types.State{}
}
