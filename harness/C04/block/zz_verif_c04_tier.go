package block

// scripted batches 3 and 4: quick fixed (one non-empty, one empty), thorough free like 1 and 2
var zzC04AllAnswersFree = false
