package block

var zzC05Second = 4
var zzC05Orders = 6
