package block

import (
	"bytes"
	"context"

	"github.com/evstack/ev-node/internal/zzsym"
)

// zzRunSync offers header and data of both blocks to the real SyncLoop, one
// event per loop run (the order is one of 6 permutation classes), and returns
// the number of errors the loop reported.
func zzRunSync(m *Manager, P []*zzSlot, order int) int {
	perms := [][]int{{0, 1, 2, 3}, {1, 0, 3, 2}, {2, 3, 0, 1}, {3, 2, 1, 0}, {0, 2, 1, 3}, {2, 0, 3, 1}}
	nerr := 0
	for _, ev := range perms[order] {
		k := ev / 2
		if ev%2 == 0 {
			m.headerInCh <- NewHeaderEvent{zzCopyHeader(P[k].header), zzC05HeaderAt[k]}
		} else if len(P[k].data.Txs) > 0 {
			m.dataInCh <- NewDataEvent{zzCopyData(P[k].data), zzC05DataAt[k]}
		} else {
			continue
		}
		ctx, cancel := context.WithCancel(context.Background())
		errCh := make(chan error, 4)
		zzsym.OnIdle(cancel)
		m.SyncLoop(ctx, errCh)
		cancel()
		if len(errCh) > 0 {
			nerr += len(errCh)
			// the loop has stopped: nothing else is consumed in this life
			for len(m.headerInCh) > 0 {
				<-m.headerInCh
			}
			for len(m.dataInCh) > 0 {
				<-m.dataInCh
			}
			break
		}
	}
	return nerr
}

// DA heights at which the four blobs are (the events carry them)
var zzC05HeaderAt = []uint64{5, 6}
var zzC05DataAt = []uint64{9, 8}

// ZZ_C05_crash: a full node applying the proposer's next two blocks dies at an
// arbitrary durable write (index 0..6 over state/block/height of both
// applications), restarts through the real NewManager (caches empty), may die
// again, and is then re-offered both parts of both blocks in any channel
// order.  It reaches the proposer's chain, every height up to the recorded
// chain height has the proposer's block, and the recorded state matches.
func ZZ_C05_crash() {
	zzsym.FreezeClock()
	zzsym.FreezeTimers()
	e, m, ex, H, P, roots := zzFullNode(2)
	zzC05Run(e, m, ex, H, P, roots)
}

// ZZ_C05_fresh_crash: the same for a node that has not applied any block yet:
// first start through the real NewManager on an empty store (any initial
// height), the proposer's first two blocks, death at any durable write.
func ZZ_C05_fresh_crash() {
	zzsym.FreezeClock()
	zzsym.FreezeTimers()
	e, m, ex, H, P, roots := zzFreshFullNode(2)
	zzC05Run(e, m, ex, H, P, roots)
}

func zzC05Run(e *zzEnv, m *Manager, ex *zzDetExec, H uint64, P []*zzSlot, roots [][]byte) {
	equalTxs := len(P[0].data.Txs) > 0 && len(P[1].data.Txs) > 0 && bytes.Equal(P[0].data.Txs[0], P[1].data.Txs[0])
	zzsym.Assume(!equalTxs) // equal tx lists: see C02 (known finding C02-K1)
	e.store.crashAt = zzsym.Pick("crashAt1", 7)
	zzRunSync(m, P, zzsym.Pick("order1", 2))
	restart := func() *Manager {
		e.store = e.store.reopen()
		m2, err := NewManager(context.Background(), nil, e.cfg, e.gen, e.store, ex, e.seq, nil, m0logger(), nil, nil, e.hb, e.db, NopMetrics(), 1, 1, DefaultManagerOptions())
		zzsym.Assert(err == nil, "full-node-restarts")
		return m2
	}
	stateAhead := e.store.state.LastBlockHeight > e.store.height
	m = restart()
	if m == nil {
		return
	}
	if second := zzsym.Pick("crashAt2", zzC05Second); second < 3 {
		zzsym.Reach("second-crash")
		e.store.crashAt = second
		zzRunSync(m, P, 0)
		stateAhead = stateAhead || e.store.state.LastBlockHeight > e.store.height
		if m = restart(); m == nil {
			return
		}
	}
	zzsym.Region("state-recorded-before-the-block", stateAhead)
	// the DA scan resumes at or below every DA height holding a blob of a block not yet applied
	for k := 0; k < 2; k++ {
		if H+uint64(k)+1 > e.store.height {
			zzsym.Assert(m.daHeight.Load() <= zzC05HeaderAt[k], "restart-rescans-da-heights-of-unapplied-headers")
			if len(P[k].data.Txs) > 0 {
				zzsym.Assert(m.daHeight.Load() <= zzC05DataAt[k], "restart-rescans-da-heights-of-unapplied-data")
			}
		}
	}
	// image after restart: height, state and blocks agree, blocks are the proposer's
	h0 := e.store.height
	zzsym.Assert(h0 >= H && h0 <= H+2, "recorded-height-in-range")
	// (a node that has not applied its first block has recorded no state yet)
	zzsym.Assert((!e.store.hasState && h0 == H) || e.store.state.LastBlockHeight == h0, "recorded-state-is-for-the-recorded-height")
	for k := 0; k < 2; k++ {
		if H+uint64(k)+1 <= h0 {
			sl := e.store.blocks[H+uint64(k)+1]
			zzsym.Assert(sl != nil, "every-recorded-height-has-a-retrievable-block")
			if sl != nil {
				zzsym.Assert(bytes.Equal(sl.header.Hash(), P[k].header.Hash()) && zzTxsEqual(sl.data.Txs, zzRaw(P[k].data.Txs)), "recorded-blocks-are-the-proposers")
			}
		}
	}
	// both parts of both blocks are offered again, any order: the node converges
	nerr := zzRunSync(m, P, zzsym.Pick("order3", zzC05Orders))
	zzsym.Assert(nerr == 0, "resync-after-crash-does-not-fail")
	zzsym.Assert(e.store.height == H+2, "reaches-the-proposers-chain-after-restart")
	zzsym.Assert(bytes.Equal(m.lastState.AppHash, roots[1]) && m.lastState.LastBlockHeight == H+2, "reaches-the-proposers-state-after-restart")
	for k := 0; k < 2; k++ {
		sl := e.store.blocks[H+uint64(k)+1]
		zzsym.Assert(sl != nil && bytes.Equal(sl.header.Hash(), P[k].header.Hash()), "final-chain-is-the-proposers")
	}
	zzsym.Reach("converged")
}
