package block

// second crash: Pick(4) = crash at write 0..2 or none; re-delivery orders after the last restart: quick 3, thorough 6
var zzC05Second = 4
var zzC05Orders = 3
