package block

// quick: one crash (value 1: Pick returns 0 = crash at write 0, ...); see harness
var zzC05Second = 4
