package block

var zzThoroughC06 = true
var zzC06MaxPending = 3
