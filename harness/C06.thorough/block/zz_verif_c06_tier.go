package block

var zzThoroughC06 = true
