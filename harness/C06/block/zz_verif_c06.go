package block

import (
	"context"

	"github.com/evstack/ev-node/internal/zzsym"
	"github.com/evstack/ev-node/types"
)

// zzSetup: arbitrary watermark W >= I-1... (W = number of blocks already
// submitted), n pending committed blocks W+1..W+n (n <= 3, any empty/non-empty mix).
func zzSubmitSetup(n int, mixed bool) (*zzEnv, *Manager, *zzDA, uint64) {
	I := zzsym.U64("I")
	zzsym.Assume(I >= 1 && I <= 1<<40)
	W := zzsym.U64("W")
	zzsym.Assume(W >= I && W <= 1<<41)
	e := zzNewEnv(I)
	ne := make([]bool, n)
	for i := range ne {
		ne[i] = mixed && zzsym.Bool("nonempty")
	}
	e.zzChain(W, n, ne)
	da := &zzDA{height: zzsym.U64("daHeight0")}
	zzsym.Assume(da.height < 1<<40)
	e.da = da
	st := types.State{ChainID: e.chainID, InitialHeight: I, LastBlockHeight: e.store.height}
	m := e.zzManager(st)
	m.da = da
	return e, m, da, W
}

// ZZ_C06_headers: one submitHeadersToDA call over 1..3 pending headers with up
// to 3 arbitrary DA answers (then the DA accepts), then a restart of the
// pending tracker from the persisted watermark and a second call.
func ZZ_C06_headers() {
	zzsym.FreezeClock()
	n := 1 + zzsym.Pick("n", zzC06MaxPending)
	e, m, da, W := zzSubmitSetup(n, false)
	m.pendingHeaders.base.lastHeight.Store(W)
	e.store.meta["last-submitted-header-height"] = zzLE(W)
	da.script = []zzDAAnswer{zzDAAny("a0.", n), zzDAAny("a1.", n)}
	if zzThoroughC06 {
		da.script = append(da.script, zzDAAny("a2.", n))
	}
	ctx := context.Background()
	pend, err := m.pendingHeaders.getPendingHeaders(ctx)
	zzsym.Assert(err == nil && len(pend) == n, "pending-is-watermark-to-height")
	_ = m.submitHeadersToDA(ctx, pend)
	zzCheckHeaderSubmission(e, m, da, W, n)
	wm := m.pendingHeaders.getLastSubmittedHeaderHeight()
	zzsym.ObserveU64("advanced", wm-W)
	// restart: a fresh tracker initialised from the persisted metadata
	ph, err := NewPendingHeaders(e.store, m.logger)
	zzsym.Assert(err == nil, "tracker-restarts")
	if err != nil {
		return
	}
	zzsym.Assert(ph.getLastSubmittedHeaderHeight() == zzPersistedWM(e, "last-submitted-header-height"), "restart-resumes-from-persisted-watermark")
	m.pendingHeaders = ph
	pend2, err := ph.getPendingHeaders(ctx)
	zzsym.Assert(err == nil, "pending-after-restart")
	if len(pend2) > 0 {
		zzsym.Reach("resubmission-after-restart")
		zzsym.Assert(pend2[0].Height() == wm+1, "restart-never-skips")
		da.script = nil // accepting DA
		calls := da.calls
		err = m.submitHeadersToDA(ctx, pend2)
		zzsym.Assert(err == nil, "accepting-da-submits-everything")
		zzsym.Assert(m.pendingHeaders.getLastSubmittedHeaderHeight() == W+uint64(n), "accepting-da-drains-pending")
		zzsym.Assert(da.calls == calls+1, "accepting-da-needs-one-attempt")
		zzCheckHeaderSubmission(e, m, da, W, n)
	} else {
		zzsym.Reach("all-submitted-first-time")
	}
}

// ZZ_C06_data: one body of the data submission loop (createSignedDataToSubmit +
// submitDataToDA) over 1..3 pending blocks of any empty/non-empty mix with
// scripted DA answers, then a restart of the tracker and an accepting DA.
func ZZ_C06_data() {
	zzsym.FreezeClock()
	n := 1 + zzsym.Pick("n", zzC06MaxPending)
	e, m, da, W := zzSubmitSetup(n, true)
	m.pendingData.base.lastHeight.Store(W)
	e.store.meta["last-submitted-data-height"] = zzLE(W)
	da.script = []zzDAAnswer{zzDAAny("a0.", n)}
	if zzThoroughC06 {
		da.script = append(da.script, zzDAAny("a1.", n))
	}
	ctx := context.Background()
	sds, err := m.createSignedDataToSubmit(ctx)
	zzsym.Assert(err == nil, "signed-data-built")
	if len(sds) > 0 {
		_ = m.submitDataToDA(ctx, sds)
	}
	zzCheckDataSubmission(e, m, da, W, n)
	// restart, then the DA accepts everything: nothing may have been skipped
	pd, err := NewPendingData(e.store, m.logger)
	zzsym.Assert(err == nil, "data-tracker-restarts")
	if err != nil {
		return
	}
	m.pendingData = pd
	da.script = nil
	sds, err = m.createSignedDataToSubmit(ctx)
	zzsym.Assert(err == nil, "signed-data-built-after-restart")
	if len(sds) > 0 {
		zzsym.Reach("data-resubmission-after-restart")
		zzsym.Assert(m.submitDataToDA(ctx, sds) == nil, "accepting-da-takes-all-data")
	}
	zzCheckDataSubmission(e, m, da, W, n)
	for i := 1; i <= n; i++ {
		h := W + uint64(i)
		if len(e.store.blocks[h].data.Txs) > 0 {
			zzsym.Assert(zzDataAccepted(e, da, h), "every-non-empty-block-data-reaches-da")
		}
	}
}

// ZZ_C06_fresh: a real history from genesis at any (small) initial height: the
// real NewManager on an empty store, then 1..2 production steps, nothing ever
// submitted.  The committed blocks I.. are pending, first block first, and an
// accepting DA takes them all.
func ZZ_C06_fresh() {
	zzsym.FreezeClock()
	// the pending range is materialised as a slice of (height - watermark)
	// entries, so the initial height is kept small here
	I := zzsym.U64("I")
	zzsym.Assume(I >= 1 && I <= 6)
	n := 1 + zzsym.Pick("n", 2)
	e := zzNewEnv(I)
	da := &zzDA{height: 7}
	e.da = da
	m, err := NewManager(context.Background(), e.signer, e.cfg, e.gen, e.store, e.exec, e.seq, da, m0logger(), nil, nil, e.hb, e.db, NopMetrics(), 1, 1, DefaultManagerOptions())
	zzsym.Assert(err == nil, "fresh-new-manager")
	if err != nil {
		return
	}
	ctx := context.Background()
	ts := zzTimeNs("ts")
	zzsym.Assume(ts >= e.gen.GenesisDAStartTime.UnixNano())
	for i := 0; i < n; i++ {
		e.seq.script = append(e.seq.script, zzSeqAnswer{txs: [][]byte{zzsym.BytesN("tx", 1)}, ts: zzsym.TimeOf(ts + int64(i))})
		zzsym.Assert(m.publishBlockInternal(ctx) == nil, "fresh-production-step")
	}
	zzsym.Assert(e.store.height == I-1+uint64(n), "fresh-chain-height")
	zzsym.Region("initial-height-above-one", I > 1)
	// the node may be stopped and started again before the DA layer accepted
	// anything (outage from launch, or a restart within the first DA block
	// time): no watermark has been recorded yet
	if zzsym.Bool("restart-before-any-acceptance") {
		e.store = e.store.reopen()
		m, err = NewManager(context.Background(), e.signer, e.cfg, e.gen, e.store, e.exec, e.seq, da, m0logger(), nil, nil, e.hb, e.db, NopMetrics(), 1, 1, DefaultManagerOptions())
		zzsym.Assert(err == nil, "restart-new-manager")
		if err != nil {
			return
		}
	}
	pend, err := m.pendingHeaders.getPendingHeaders(ctx)
	zzsym.Assert(err == nil, "fresh-chain-pending-headers-readable")
	zzsym.Assert(len(pend) > 0 && pend[0].Height() == I, "fresh-chain-first-pending-is-initial-height")
	if err == nil && len(pend) > 0 {
		zzsym.Assert(m.submitHeadersToDA(ctx, pend) == nil, "fresh-chain-headers-submitted")
		zzsym.Assert(m.pendingHeaders.numPendingHeaders() == 0, "fresh-chain-nothing-pending-after-accept")
	}
	// the block at the initial height is the pre-saved (empty) genesis block,
	// so only a second block carries the batch
	sds, err := m.createSignedDataToSubmit(ctx)
	zzsym.Assert(err == nil && (n < 2 || len(sds) > 0), "fresh-chain-pending-data-readable")
	zzsym.Reach("fresh")
}
