package block

// quick: 2 scripted DA answers per submission call; thorough: 3
var zzThoroughC06 = false
