package block

// quick: 2 scripted DA answers per header submission call (1 for data), up to 2 pending blocks; thorough: 3 (2) answers, up to 3 pending
var zzThoroughC06 = false
var zzC06MaxPending = 2
