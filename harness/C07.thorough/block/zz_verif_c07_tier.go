package block

var zzC07MaxK = 3
