package block

import (
	"bytes"
	"context"
	"encoding/binary"
	"fmt"

	"github.com/evstack/ev-node/internal/zzsym"
	"github.com/evstack/ev-node/types"
)

// ZZ_C07_step: one wake-up of the real DAIncluderLoop from an arbitrary state:
// DA-included height D (concrete, so that the rhb/<h>/... metadata keys are
// real strings), k <= 3 committed blocks above it with any empty/non-empty
// mix and arbitrary 1-byte tx lists (equal lists possible), an arbitrary set
// of blobs really on the DA layer (each marked in the caches with the DA
// height it is at), executor finalisation and metadata writes may fail.
func ZZ_C07_step() { zzC07Step(false, false) }

// ZZ_C07_clean_restart: the same step, but between the marking of the blobs
// and the wake-up the node is stopped cleanly (the real SaveCache) and started
// again (real NewManager, which reloads the caches and the persisted height):
// the restarted node reports the included prefix after one wake-up.
func ZZ_C07_clean_restart() { zzC07Step(false, true) }

// ZZ_C07_faults: the same step with one block and executor / metadata-write failures.
func ZZ_C07_faults() { zzC07Step(true, false) }

func zzC07Step(faults, cleanRestart bool) {
	zzsym.FreezeClock()
	var I, D uint64
	switch zzsym.Pick("start", 3) {
	case 0:
		I, D = 1, 0
	case 1:
		I, D = 3, 2
	default:
		I, D = 1, 7
	}
	k := 1
	if !faults {
		k = 1 + zzsym.Pick("k", zzC07MaxK)
	}
	e := zzNewEnv(I)
	ne := make([]bool, k)
	for i := range ne {
		ne[i] = zzsym.Bool("nonempty")
	}
	e.zzChain(D, k, ne)
	H := D + uint64(k)
	st := types.State{ChainID: e.chainID, InitialHeight: I, LastBlockHeight: H}
	m := e.zzManager(st)
	m.daIncludedHeight.Store(D)
	if D > 0 {
		e.store.meta["d"] = zzLE(D)
	}
	hdrOn, dataOn := make([]bool, k), make([]bool, k)
	hdrAt, dataAt := make([]uint64, k), make([]uint64, k)
	sameAsEarlier := false
	for i := 0; i < k; i++ {
		sl := e.store.blocks[D+uint64(i)+1]
		hdrOn[i] = zzsym.Bool("hdrOnDA")
		hdrAt[i] = zzsym.U64("hdrDAHeight")
		if hdrOn[i] {
			m.headerCache.SetDAIncluded(sl.header.Hash().String(), hdrAt[i])
		}
		if ne[i] {
			dataOn[i] = zzsym.Bool("dataOnDA")
			dataAt[i] = zzsym.U64("dataDAHeight")
			if dataOn[i] {
				m.dataCache.SetDAIncluded(sl.data.DACommitment().String(), dataAt[i])
			}
			for j := 0; j < i; j++ {
				if ne[j] && bytes.Equal(sl.data.Txs[0], e.store.blocks[D+uint64(j)+1].data.Txs[0]) {
					sameAsEarlier = true
				}
			}
		}
	}
	zzsym.Region("two-blocks-with-equal-tx-lists", sameAsEarlier)
	if faults {
		e.exec.failFin = zzsym.Bool("setFinalFails")
		if zzsym.Bool("metaWriteFails") {
			e.store.failMeta = "d"
		}
	}
	if cleanRestart {
		zzsym.Assert(m.SaveCache() == nil, "clean-stop-saves-the-caches")
		e.store.state, e.store.hasState = st, true
		e.store = e.store.reopen()
		m2, err := NewManager(context.Background(), e.signer, e.cfg, e.gen, e.store, e.exec, e.seq, nil, m0logger(), nil, nil, e.hb, e.db, NopMetrics(), 1, 1, DefaultManagerOptions())
		zzsym.Assert(err == nil, "restart-ok")
		if err != nil {
			return
		}
		zzsym.Assert(m2.GetDAIncludedHeight() == D, "restart-reports-persisted-height")
		m = m2
	}
	ctx, cancel := context.WithCancel(context.Background())
	errCh := make(chan error, 4)
	m.daIncluderCh <- struct{}{}
	zzsym.OnIdle(cancel)
	m.DAIncluderLoop(ctx, errCh)
	cancel()

	D2 := m.GetDAIncludedHeight()
	zzsym.ObserveU64("advanced", D2-D)
	zzsym.Assert(D2 >= D, "da-included-height-monotone")
	zzsym.Assert(D2 <= H, "da-included-height-not-above-chain-height")
	// finalised exactly D+1..D2, in order (a failing SetFinal finalises nothing)
	// (a failed metadata write leaves one height finalised but not yet reported;
	// it is finalised again and reported by the next wake-up)
	nf := uint64(len(e.exec.finals))
	zzsym.Assert(nf == D2-D || (e.store.failMeta != "" && nf == D2-D+1), "finalized-exactly-the-reported-heights")
	for i, f := range e.exec.finals {
		zzsym.Assert(f == D+uint64(i)+1, "finalized-in-order")
	}
	// durable: the persisted value is what is reported
	if D2 > D {
		zzsym.Reach("advanced")
		v, ok := e.store.meta["d"]
		zzsym.Assert(ok && len(v) == 8 && binary.LittleEndian.Uint64(v) == D2, "reported-height-is-persisted")
	}
	// sound: every reported height has its header and (unless empty) its data on the DA layer
	for i := 0; i < k; i++ {
		h := D + uint64(i) + 1
		if h > D2 {
			break
		}
		zzsym.Assert(hdrOn[i], "reported-height-has-header-on-da")
		zzsym.Assert(!ne[i] || dataOn[i], "reported-height-has-its-data-on-da")
		hv, hok := e.store.meta[fmt.Sprintf("rhb/%d/h", h)]
		dv, dok := e.store.meta[fmt.Sprintf("rhb/%d/d", h)]
		zzsym.Assert(hok && len(hv) == 8 && binary.LittleEndian.Uint64(hv) == hdrAt[i], "recorded-header-da-height-is-where-the-blob-is")
		if ne[i] {
			if dataOn[i] {
				zzsym.Assert(dok && len(dv) == 8 && binary.LittleEndian.Uint64(dv) == dataAt[i], "recorded-data-da-height-is-where-the-blob-is")
			}
		} else {
			zzsym.Assert(dok && bytes.Equal(dv, hv), "empty-block-data-height-is-header-height")
		}
	}
	// eventual: a prefix of fully included blocks is reported after one wake-up
	if !e.exec.failFin && e.store.failMeta == "" {
		want := D
		for i := 0; i < k; i++ {
			if hdrOn[i] && (!ne[i] || dataOn[i]) {
				want++
			} else {
				break
			}
		}
		zzsym.Assert(D2 >= want, "included-prefix-is-reported-after-one-wakeup")
		zzsym.Assert(len(errCh) == 0, "no-error-when-nothing-fails")
	}
}

// ZZ_C07_restart: the persisted DA-included height is what a restarted node reports.
func ZZ_C07_restart() {
	zzsym.FreezeClock()
	e := zzNewEnv(1)
	x := zzsym.U64("persisted")
	hasD := zzsym.Bool("hasPersisted")
	if hasD {
		e.store.meta["d"] = zzLE(x)
	}
	m, err := NewManager(context.Background(), e.signer, e.cfg, e.gen, e.store, e.exec, e.seq, nil, m0logger(), nil, nil, e.hb, e.db, NopMetrics(), 1, 1, DefaultManagerOptions())
	zzsym.Assert(err == nil, "restart-ok")
	if err != nil {
		return
	}
	if hasD {
		zzsym.Assert(m.GetDAIncludedHeight() == x, "restart-reports-persisted-height")
	} else {
		zzsym.Assert(m.GetDAIncludedHeight() == 0, "fresh-node-reports-zero")
	}
	zzsym.Reach("restarted")
}
