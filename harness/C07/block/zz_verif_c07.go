package block

import (
	"bytes"
	"context"
	"encoding/binary"
	"fmt"
	"time"

	"github.com/evstack/ev-node/internal/zzsym"
	"github.com/evstack/ev-node/types"
)

// ZZ_C07_step: one wake-up of the real DAIncluderLoop from an arbitrary state:
// DA-included height D (concrete, so that the rhb/<h>/... metadata keys are
// real strings), k <= 3 committed blocks above it with any empty/non-empty
// mix and arbitrary 1-byte tx lists (equal lists possible), an arbitrary set
// of blobs really on the DA layer (each marked in the caches with the DA
// height it is at), executor finalisation and metadata writes may fail.
func ZZ_C07_step() { zzC07Step(false, false) }

// ZZ_C07_clean_restart: the same step, but between the marking of the blobs
// and the wake-up the node is stopped cleanly (the real SaveCache) and started
// again (real NewManager, which reloads the caches and the persisted height):
// the restarted node reports the included prefix after one wake-up.
func ZZ_C07_clean_restart() { zzC07Step(false, true) }

// ZZ_C07_faults: the same step with one block and executor / metadata-write failures.
func ZZ_C07_faults() { zzC07Step(true, false) }

func zzC07Step(faults, cleanRestart bool) {
	zzsym.FreezeClock()
	var I, D uint64
	switch zzsym.Pick("start", 3) {
	case 0:
		I, D = 1, 0
	case 1:
		I, D = 3, 2
	default:
		I, D = 1, 7
	}
	k := 1
	if !faults {
		k = 1 + zzsym.Pick("k", zzC07MaxK)
	}
	e := zzNewEnv(I)
	ne := make([]bool, k)
	for i := range ne {
		ne[i] = zzsym.Bool("nonempty")
	}
	e.zzChain(D, k, ne)
	H := D + uint64(k)
	st := types.State{ChainID: e.chainID, InitialHeight: I, LastBlockHeight: H}
	m := e.zzManager(st)
	m.daIncludedHeight.Store(D)
	if D > 0 {
		e.store.meta["d"] = zzLE(D)
	}
	hdrOn, dataOn := make([]bool, k), make([]bool, k)
	hdrAt, dataAt := make([]uint64, k), make([]uint64, k)
	sameAsEarlier := false
	for i := 0; i < k; i++ {
		sl := e.store.blocks[D+uint64(i)+1]
		hdrOn[i] = zzsym.Bool("hdrOnDA")
		hdrAt[i] = zzsym.U64("hdrDAHeight")
		if hdrOn[i] {
			m.headerCache.SetDAIncluded(sl.header.Hash().String(), hdrAt[i])
		}
		if ne[i] {
			dataOn[i] = zzsym.Bool("dataOnDA")
			dataAt[i] = zzsym.U64("dataDAHeight")
			if dataOn[i] {
				m.dataCache.SetDAIncluded(sl.data.DACommitment().String(), dataAt[i])
			}
			for j := 0; j < i; j++ {
				if ne[j] && bytes.Equal(sl.data.Txs[0], e.store.blocks[D+uint64(j)+1].data.Txs[0]) {
					sameAsEarlier = true
				}
			}
		}
	}
	zzsym.Region("two-blocks-with-equal-tx-lists", sameAsEarlier)
	if faults {
		e.exec.failFin = zzsym.Bool("setFinalFails")
		if zzsym.Bool("metaWriteFails") {
			e.store.failMeta = "d"
		}
	}
	if cleanRestart {
		zzsym.Assert(m.SaveCache() == nil, "clean-stop-saves-the-caches")
		e.store.state, e.store.hasState = st, true
		e.store = e.store.reopen()
		m2, err := NewManager(context.Background(), e.signer, e.cfg, e.gen, e.store, e.exec, e.seq, nil, m0logger(), nil, nil, e.hb, e.db, NopMetrics(), 1, 1, DefaultManagerOptions())
		zzsym.Assert(err == nil, "restart-ok")
		if err != nil {
			return
		}
		zzsym.Assert(m2.GetDAIncludedHeight() == D, "restart-reports-persisted-height")
		m = m2
	}
	ctx, cancel := context.WithCancel(context.Background())
	errCh := make(chan error, 4)
	m.daIncluderCh <- struct{}{}
	zzsym.OnIdle(cancel)
	m.DAIncluderLoop(ctx, errCh)
	cancel()

	D2 := m.GetDAIncludedHeight()
	zzsym.ObserveU64("advanced", D2-D)
	zzsym.Assert(D2 >= D, "da-included-height-monotone")
	zzsym.Assert(D2 <= H, "da-included-height-not-above-chain-height")
	// finalised exactly D+1..D2, in order (a failing SetFinal finalises nothing)
	// (a failed metadata write leaves one height finalised but not yet reported;
	// it is finalised again and reported by the next wake-up)
	nf := uint64(len(e.exec.finals))
	zzsym.Assert(nf == D2-D || (e.store.failMeta != "" && nf == D2-D+1), "finalized-exactly-the-reported-heights")
	for i, f := range e.exec.finals {
		zzsym.Assert(f == D+uint64(i)+1, "finalized-in-order")
	}
	// durable: the persisted value is what is reported
	if D2 > D {
		zzsym.Reach("advanced")
		v, ok := e.store.meta["d"]
		zzsym.Assert(ok && len(v) == 8 && binary.LittleEndian.Uint64(v) == D2, "reported-height-is-persisted")
	}
	// sound: every reported height has its header and (unless empty) its data on the DA layer
	for i := 0; i < k; i++ {
		h := D + uint64(i) + 1
		if h > D2 {
			break
		}
		zzsym.Assert(hdrOn[i], "reported-height-has-header-on-da")
		zzsym.Assert(!ne[i] || dataOn[i], "reported-height-has-its-data-on-da")
		hv, hok := e.store.meta[fmt.Sprintf("rhb/%d/h", h)]
		dv, dok := e.store.meta[fmt.Sprintf("rhb/%d/d", h)]
		zzsym.Assert(hok && len(hv) == 8 && binary.LittleEndian.Uint64(hv) == hdrAt[i], "recorded-header-da-height-is-where-the-blob-is")
		if ne[i] {
			if dataOn[i] {
				zzsym.Assert(dok && len(dv) == 8 && binary.LittleEndian.Uint64(dv) == dataAt[i], "recorded-data-da-height-is-where-the-blob-is")
			}
		} else {
			zzsym.Assert(dok && bytes.Equal(dv, hv), "empty-block-data-height-is-header-height")
		}
	}
	// eventual: a prefix of fully included blocks is reported after one wake-up
	if !e.exec.failFin && e.store.failMeta == "" {
		want := D
		for i := 0; i < k; i++ {
			if hdrOn[i] && (!ne[i] || dataOn[i]) {
				want++
			} else {
				break
			}
		}
		zzsym.Assert(D2 >= want, "included-prefix-is-reported-after-one-wakeup")
		zzsym.Assert(len(errCh) == 0, "no-error-when-nothing-fails")
	}
}

// ZZ_C07_restart: the persisted DA-included height is what a restarted node reports.
func ZZ_C07_restart() {
	zzsym.FreezeClock()
	e := zzNewEnv(1)
	x := zzsym.U64("persisted")
	hasD := zzsym.Bool("hasPersisted")
	if hasD {
		e.store.meta["d"] = zzLE(x)
	}
	m, err := NewManager(context.Background(), e.signer, e.cfg, e.gen, e.store, e.exec, e.seq, nil, m0logger(), nil, nil, e.hb, e.db, NopMetrics(), 1, 1, DefaultManagerOptions())
	zzsym.Assert(err == nil, "restart-ok")
	if err != nil {
		return
	}
	if hasD {
		zzsym.Assert(m.GetDAIncludedHeight() == x, "restart-reports-persisted-height")
	} else {
		zzsym.Assert(m.GetDAIncludedHeight() == 0, "fresh-node-reports-zero")
	}
	zzsym.Reach("restarted")
}

// ZZ_C07_after_submission: the marks are not assumed, they are produced by the
// real header submission: 2 blocks (empty, or their data already marked) above
// the DA-included height D are submitted with one scripted DA answer (accept
// all, accept a prefix, or a failure) after which the DA layer is down; then
// the includer wakes up.  Every height it reports has its header blob among
// the blobs the DA layer really accepted, at the DA height recorded for it.
func ZZ_C07_after_submission() {
	zzsym.FreezeClock()
	const D = uint64(7)
	e := zzNewEnv(1)
	ne := []bool{zzsym.Bool("nonempty"), zzsym.Bool("nonempty")}
	e.zzChain(D, 2, ne)
	H := D + 2
	da := &zzDA{height: 20}
	e.da = da
	m := e.zzManager(types.State{ChainID: e.chainID, InitialHeight: 1, LastBlockHeight: H})
	m.da = da
	m.daIncludedHeight.Store(D)
	e.store.meta["d"] = zzLE(D)
	m.pendingHeaders.base.lastHeight.Store(D)
	e.store.meta["last-submitted-header-height"] = zzLE(D)
	// the data of non-empty blocks is already on the DA layer and marked
	for i := 0; i < 2; i++ {
		if ne[i] {
			m.dataCache.SetDAIncluded(e.store.blocks[D+uint64(i)+1].data.DACommitment().String(), 19)
		}
	}
	zzsym.Assume(!(ne[0] && ne[1] && bytes.Equal(e.store.blocks[D+1].data.Txs[0], e.store.blocks[D+2].data.Txs[0])))
	// first answer arbitrary, then the DA layer is down for the rest of the call
	a0 := zzDAAny("a0.", 2)
	zzsym.Assume(a0.kind != 8) // (an acceptance whose acknowledgement is lost is unknown to the node: C06)
	da.script = []zzDAAnswer{a0}
	// short waits, so that a native replay of the retry budget takes no time
	m.config.DA.BlockTime.Duration = time.Millisecond
	m.config.DA.MempoolTTL = 1
	for i := 0; i < 40; i++ {
		da.script = append(da.script, zzDAAnswer{kind: 6})
	}
	ctx, cancel := context.WithCancel(context.Background())
	pend, err := m.pendingHeaders.getPendingHeaders(ctx)
	zzsym.Assert(err == nil && len(pend) == 2, "pending-is-watermark-to-height")
	_ = m.submitHeadersToDA(ctx, pend)
	errCh := make(chan error, 4)
	m.sendNonBlockingSignalToDAIncluderCh()
	zzsym.OnIdle(cancel)
	m.DAIncluderLoop(ctx, errCh)
	cancel()
	D2 := m.GetDAIncludedHeight()
	zzsym.ObserveU64("advanced", D2-D)
	zzsym.Assert(D2 >= D && D2 <= H, "da-included-height-monotone")
	for h := D + 1; h <= D2; h++ {
		at, ok := zzHeaderAccepted(e, da, h)
		zzsym.Assert(ok, "reported-height-has-header-on-da")
		hv, hok := e.store.meta[fmt.Sprintf("rhb/%d/h", h)]
		zzsym.Assert(hok && len(hv) == 8 && ok && binary.LittleEndian.Uint64(hv) == at, "recorded-header-da-height-is-where-the-blob-is")
	}
	// and everything the DA layer accepted as a prefix is reported
	want := D
	for h := D + 1; h <= H; h++ {
		if _, ok := zzHeaderAccepted(e, da, h); ok {
			want = h
		} else {
			break
		}
	}
	zzsym.Assert(D2 >= want, "included-prefix-is-reported-after-one-wakeup")
	zzsym.Reach("after-submission")
}
