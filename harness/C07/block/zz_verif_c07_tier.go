package block

// blocks above the DA-included height: quick 1..2, thorough 1..3
var zzC07MaxK = 2
