package block

var zzC08MaxPending = 3
