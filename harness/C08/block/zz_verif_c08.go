package block

import (
	"context"
	"time"

	"github.com/evstack/ev-node/internal/zzsym"
	"github.com/evstack/ev-node/types"
)

// ZZ_C08_refuse: the refusal test of one production step for an arbitrary
// limit L >= 1, arbitrary chain height and arbitrary watermarks: the step is
// declined iff H-Wh >= L or H-Wd >= L (all 64-bit values), and a declined
// step touches nothing.
func ZZ_C08_refuse() {
	zzsym.FreezeClock()
	I, H := zzHeights()
	e := zzNewEnv(I)
	m, _ := zzInvState(e, H)
	L := zzsym.U64("L")
	zzsym.Assume(L >= 1)
	Wh, Wd := zzsym.U64("Wh"), zzsym.U64("Wd")
	zzsym.Assume(Wh >= I-1 && Wh <= H && Wd >= I-1 && Wd <= H)
	m.config.Node.MaxPendingHeadersAndData = L
	m.pendingHeaders.base.lastHeight.Store(Wh)
	m.pendingData.base.lastHeight.Store(Wd)
	e.seq.script = []zzSeqAnswer{{txs: [][]byte{zzsym.BytesN("tx", 1)}, ts: zzsym.TimeOf(int64(e.store.blocks[H].header.BaseHeader.Time) + 1)}}
	err := m.publishBlockInternal(context.Background())
	mustDecline := H-Wh >= L || H-Wd >= L
	if mustDecline {
		zzsym.Reach("declined")
		zzsym.Assert(err == nil && e.store.height == H && e.seq.calls == 0, "declines-at-the-limit-without-side-effects")
	} else {
		zzsym.Reach("produced")
		zzsym.Assert(err == nil && e.store.height == H+1, "produces-below-the-limit")
	}
	zzsym.ObserveBool("declined", e.store.height == H)
}

// zzC08Setup: n <= 3 committed blocks W+1..W+n above both watermarks, any
// empty/non-empty mix, limit L in 1..n, accepting DA.
func zzC08Setup() (*zzEnv, *Manager, *zzDA, uint64, int, []bool) {
	I := zzsym.U64("I")
	zzsym.Assume(I >= 1 && I <= 1<<40)
	W := zzsym.U64("W")
	zzsym.Assume(W >= I && W <= 1<<41)
	n := 1 + zzsym.Pick("n", zzC08MaxPending)
	e := zzNewEnv(I)
	ne := make([]bool, n)
	for i := range ne {
		ne[i] = zzsym.Bool("nonempty")
	}
	e.zzChain(W, n, ne)
	da := &zzDA{height: 5}
	e.da = da
	tip := e.store.blocks[W+uint64(n)]
	st := types.State{ChainID: e.chainID, InitialHeight: I, LastBlockHeight: e.store.height, LastBlockTime: tip.header.Time(), AppHash: zzsym.BytesN("rootH", 32)}
	e.store.state, e.store.hasState = st, true
	m := e.zzManager(st)
	m.da = da
	m.pendingHeaders.base.lastHeight.Store(W)
	m.pendingData.base.lastHeight.Store(W)
	// arbitrary earlier history: some block at or below W carried the tx list
	// [t0] and its data blob was accepted by the DA layer (so it is marked)
	if zzsym.Bool("earlier-data-marked") {
		old := &types.Data{Txs: types.Txs{types.Tx(zzsym.BytesN("t0", 1))}}
		m.dataCache.SetDAIncluded(old.DACommitment().String(), 3)
	}
	return e, m, da, W, n, ne
}

// ZZ_C08_drain: liveness.  From any state with n <= 3 blocks awaiting
// submission and a limit L <= n (so production is currently refused), once
// the DA layer accepts submissions -- one body of the header loop and up to
// two bodies of the data loop -- the next production step is not declined.
// Includes the all-empty chain.
func ZZ_C08_drain() {
	zzsym.FreezeClock()
	e, m, da, W, n, ne := zzC08Setup()
	_ = da
	L := uint64(1 + zzsym.Pick("L", n))
	m.config.Node.MaxPendingHeadersAndData = L
	allEmpty := true
	anyEmpty := false
	for _, x := range ne {
		if x {
			allEmpty = false
		} else {
			anyEmpty = true
		}
	}
	zzsym.Region("all-pending-blocks-empty", allEmpty)
	zzsym.Region("some-pending-block-empty", anyEmpty)
	ctx := context.Background()
	// header loop body
	pend, err := m.pendingHeaders.getPendingHeaders(ctx)
	zzsym.Assert(err == nil && len(pend) == n, "drain-pending-headers")
	zzsym.Assert(m.submitHeadersToDA(ctx, pend) == nil, "drain-headers-accepted")
	// data loop body, twice (as two ticks)
	for tick := 0; tick < 2; tick++ {
		if m.pendingData.isEmpty() {
			break
		}
		sds, err := m.createSignedDataToSubmit(ctx)
		zzsym.Assert(err == nil, "drain-signed-data")
		if len(sds) > 0 {
			zzsym.Assert(m.submitDataToDA(ctx, sds) == nil, "drain-data-accepted")
		}
	}
	// everything that exists is on the DA layer now: production must resume
	tip := e.store.blocks[W+uint64(n)]
	e.seq.script = []zzSeqAnswer{{txs: [][]byte{zzsym.BytesN("txn", 1)}, ts: zzsym.TimeOf(int64(tip.header.BaseHeader.Time) + 1)}}
	err = m.publishBlockInternal(ctx)
	zzsym.Assert(err == nil, "drain-step-ok")
	zzsym.Assert(e.store.height == W+uint64(n)+1, "production-resumes-once-da-accepted-everything")
	zzsym.Reach("drained")
}

// ZZ_C08_outage_restart: a fresh chain (initial height 1..4, real NewManager)
// produces blocks while nothing is submitted (DA outage from launch, or less
// than one DA block time has passed) until the limit L in 1..2 refuses the
// next step; the node is restarted (real NewManager on the durable image);
// then the DA layer accepts: one header loop body and up to two data loop
// bodies later production is no longer refused.
func ZZ_C08_outage_restart() {
	zzsym.FreezeClock()
	I := zzsym.U64("I")
	zzsym.Assume(I >= 1 && I <= 4)
	L := uint64(1 + zzsym.Pick("L", 2))
	e := zzNewEnv(I)
	e.cfg.Node.MaxPendingHeadersAndData = L
	da := &zzDA{height: 7}
	e.da = da
	ctx := context.Background()
	mk := func() (*Manager, error) {
		return NewManager(ctx, e.signer, e.cfg, e.gen, e.store, e.exec, e.seq, da, m0logger(), nil, nil, e.hb, e.db, NopMetrics(), 1, 1, DefaultManagerOptions())
	}
	m, err := mk()
	zzsym.Assert(err == nil, "fresh-new-manager")
	if err != nil {
		return
	}
	ts := zzTimeNs("ts")
	zzsym.Assume(ts >= e.gen.GenesisDAStartTime.UnixNano())
	for i := uint64(0); i <= L; i++ {
		a := zzSeqAnswer{txs: [][]byte{}, ts: zzsym.TimeOf(ts + int64(i))}
		if zzsym.Bool("nonempty") {
			a.txs = [][]byte{zzsym.BytesN("tx", 1)}
		}
		e.seq.script = append(e.seq.script, a)
		zzsym.Assert(m.publishBlockInternal(ctx) == nil, "outage-production-step")
	}
	zzsym.Assert(e.store.height == I-1+L, "limit-reached-during-outage")
	zzsym.Region("initial-height-above-one", I > 1)
	if zzsym.Bool("restart") {
		e.store = e.store.reopen()
		m, err = mk()
		zzsym.Assert(err == nil, "restart-new-manager")
		if err != nil {
			return
		}
	}
	pend, err := m.pendingHeaders.getPendingHeaders(ctx)
	zzsym.Assert(err == nil && uint64(len(pend)) == L, "outage-pending-headers")
	if err != nil || len(pend) == 0 {
		return
	}
	zzsym.Assert(m.submitHeadersToDA(ctx, pend) == nil, "outage-headers-accepted")
	for tick := 0; tick < 2; tick++ {
		if m.pendingData.isEmpty() {
			break
		}
		sds, err := m.createSignedDataToSubmit(ctx)
		zzsym.Assert(err == nil, "outage-signed-data")
		if len(sds) > 0 {
			zzsym.Assert(m.submitDataToDA(ctx, sds) == nil, "outage-data-accepted")
		}
	}
	before := e.store.height
	e.seq.script = append(e.seq.script, zzSeqAnswer{txs: [][]byte{{9}}, ts: zzsym.TimeOf(ts + int64(L) + 5)})
	err = m.publishBlockInternal(ctx)
	zzsym.Assert(err == nil && e.store.height == before+1, "production-resumes-after-outage-and-restart")
	zzsym.Reach("resumed")
}

// ZZ_C08_loop_outage: the real header (or data) submission loop runs through a
// DA outage that outlasts one whole submission round (all 30 attempts of a
// round fail, so the round ends with an error) and the DA layer then accepts:
// the loop is still alive, submits on a later tick, the watermark reaches the
// chain height and the next production step is no longer refused.
func ZZ_C08_loop_outage() {
	zzsym.FreezeClock()
	zzsym.SetClockNs(1 << 50)
	// (a concrete small state: the subject is the loop's timing, not the data)
	e := zzNewEnv(1)
	W, n := uint64(4), 1+zzsym.Pick("n", 2)
	ne := make([]bool, n)
	for i := range ne {
		ne[i] = true
	}
	e.zzChain(W, n, ne)
	da := &zzDA{height: 5}
	e.da = da
	m := e.zzManager(types.State{ChainID: e.chainID, InitialHeight: 1, LastBlockHeight: W + uint64(n)})
	m.da = da
	m.pendingHeaders.base.lastHeight.Store(W)
	m.pendingData.base.lastHeight.Store(W)
	m.config.Node.MaxPendingHeadersAndData = uint64(n)
	m.config.DA.BlockTime.Duration = 10 * time.Millisecond
	m.config.DA.MempoolTTL = 1
	// generic failures for one whole round (and a few more), then the DA layer accepts
	fails := 30 + zzsym.Pick("extra-failures", 3)
	for i := 0; i < fails; i++ {
		da.script = append(da.script, zzDAAnswer{kind: 6})
	}
	dataLoop := zzsym.Bool("dataLoop")
	ctx, cancel := context.WithCancel(context.Background())
	t0 := zzsym.NowNs()
	// long after the outage: 30 attempts x at most one DA block time of back-off, plus ticks
	zzsym.At(t0+int64(3*time.Second), cancel)
	if dataLoop {
		m.DataSubmissionLoop(ctx)
	} else {
		m.HeaderSubmissionLoop(ctx)
	}
	cancel()
	H := W + uint64(n)
	if dataLoop {
		zzsym.Assert(m.pendingData.getLastSubmittedDataHeight() == H, "data-submitted-after-the-outage")
	} else {
		zzsym.Assert(m.pendingHeaders.getLastSubmittedHeaderHeight() == H, "headers-submitted-after-the-outage")
	}
	zzsym.Reach("outage-over")
	_ = e
}
