package block

// pending blocks in the drain lemma: quick 1..2, thorough 1..3
var zzC08MaxPending = 2
