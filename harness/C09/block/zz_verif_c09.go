package block

import (
	"bytes"
	"context"
	"fmt"

	"github.com/libp2p/go-libp2p/core/crypto"
	"google.golang.org/protobuf/proto"

	coreda "github.com/evstack/ev-node/core/da"
	"github.com/evstack/ev-node/internal/zzsym"
	"github.com/evstack/ev-node/types"
	pb "github.com/evstack/ev-node/types/pb/evnode/v1"
)

// zzRDA: scripted DA layer for retrieval.  Per DA height start+r a fetch
// behaviour and a list of blobs.
type zzRDA struct {
	zzDA
	start  uint64
	kind   []int // per relative height
	blobs  [][][]byte
	fails  []int   // failures already served per height
	errs   []error // which error a failing fetch returns, per height
	idsLog []uint64
	getLog []int
}

const (
	zzFetchOK = iota
	zzFetchNotFound
	zzFetchNotFoundWrapped
	zzFetchFuture
	zzFetchErrOnce    // listing fails once, then works
	zzFetchErrPersist // listing fails 10 times (one whole retry budget), then works
	zzFetchEmptyIDs
	zzFetchGetFailsOnce
	zzFetchKinds
)

func (d *zzRDA) GetIDs(ctx context.Context, height uint64, ns []byte) (*coreda.GetIDsResult, error) {
	d.idsLog = append(d.idsLog, height)
	if height < d.start || height-d.start >= uint64(len(d.kind)) {
		// beyond the scripted window: the DA layer has not produced it yet
		return nil, coreda.ErrHeightFromFuture
	}
	r := int(height - d.start)
	switch d.kind[r] {
	case zzFetchNotFound:
		return nil, coreda.ErrBlobNotFound
	case zzFetchNotFoundWrapped:
		return nil, fmt.Errorf("rpc: %w", coreda.ErrBlobNotFound)
	case zzFetchFuture:
		return nil, fmt.Errorf("wrapped: %w", coreda.ErrHeightFromFuture)
	case zzFetchErrOnce:
		if d.fails[r] < 1 {
			d.fails[r]++
			return nil, d.errs[r]
		}
	case zzFetchErrPersist:
		if d.fails[r] < 10 {
			d.fails[r]++
			return nil, d.errs[r]
		}
	case zzFetchEmptyIDs:
		return &coreda.GetIDsResult{}, nil
	}
	ids := make([]coreda.ID, len(d.blobs[r]))
	for i := range ids {
		id := make([]byte, 10)
		id[8], id[9] = byte(r), byte(i)
		ids[i] = id
	}
	return &coreda.GetIDsResult{IDs: ids}, nil
}

func (d *zzRDA) Get(ctx context.Context, ids []coreda.ID, ns []byte) ([]coreda.Blob, error) {
	d.getLog = append(d.getLog, len(ids))
	if len(ids) == 0 {
		return nil, nil
	}
	r := int(ids[0][8])
	if d.kind[r] == zzFetchGetFailsOnce && d.fails[r] < 1 {
		d.fails[r]++
		return nil, d.errs[r]
	}
	out := make([]coreda.Blob, len(ids))
	for i, id := range ids {
		out[i] = d.blobs[r][int(id[9])]
	}
	return out, nil
}

const (
	zzBlobEmpty = iota
	zzBlobHeader1
	zzBlobData1
	zzBlobHeader2
	zzBlobJunk
	zzBlobUnsignedHeader
	zzBlobKinds
	// structurally odd but well-formed protobuf (only in ZZ_C09_odd_blobs)
	zzOddSignatureOnly = iota + 100
	zzOddOtherMessage
	zzOddSignerOnly
	zzOddEmptyInnerHeader
	zzOddDataWithoutMetadata
	zzOddSignedDataWithoutData
	zzOddEnd
)

// ZZ_C09_scan: the real RetrieveLoop over two scripted DA heights with every
// combination of fetch behaviours and up to 2 blobs per height drawn from
// genuine headers/data, junk, empty, forged and unsigned headers; the loop is
// woken three more times and then stopped.
func ZZ_C09_scan() { zzC09Scan(0) }

// ZZ_C09_blob_pairs: every ordered pair of blob kinds at one height.
func ZZ_C09_blob_pairs() { zzC09Scan(1) }

// ZZ_C09_errors: a failing fetch may return any error the DA interface
// defines (or the fetch timeout), plain or wrapped: the height is retried,
// never skipped.
func ZZ_C09_errors() { zzC09Scan(2) }

// ZZ_C09_odd_blobs: one structurally odd blob (a message with fields missing,
// a message of another type, signed data without data or without metadata --
// all well-formed protobuf) in front of a genuine header at one height: the
// scan does not panic or stall, hands exactly the genuine header to sync and
// moves on.
func ZZ_C09_odd_blobs() { zzC09Scan(3) }

func zzC09Scan(mode int) {
	pairs := mode == 1
	zzsym.FreezeClock()
	a := zzsym.U64("start")
	zzsym.Assume(a < 1<<62)
	e := zzNewEnv(1)
	H := uint64(4)
	e.zzChain(H, 2, []bool{true, true})
	b1, b2 := e.store.blocks[H+1], e.store.blocks[H+2]
	e.store.height = H
	delete(e.store.blocks, H+1)
	delete(e.store.blocks, H+2)
	rda := &zzRDA{start: a, kind: make([]int, 2), fails: make([]int, 2), blobs: make([][][]byte, 2), errs: []error{zzErrInjected, zzErrInjected}}
	// every error the DA interface defines (plus the fetch timeout) may be what a failing fetch returns
	allErrs := []error{zzErrInjected, context.DeadlineExceeded, coreda.ErrContextDeadline, coreda.ErrContextCanceled, coreda.ErrTxTimedOut, coreda.ErrBlobSizeOverLimit, coreda.ErrTxAlreadyInMempool, coreda.ErrTxIncorrectAccountSequence}
	mk := func(kind int) []byte {
		switch kind {
		case zzBlobEmpty:
			return []byte{}
		case zzBlobHeader1:
			return zzHeaderBlob(b1.header)
		case zzBlobData1:
			return e.zzDataBlob(b1)
		case zzBlobHeader2:
			return zzHeaderBlob(b2.header)
		case zzBlobJunk:
			return []byte{0xff, 0xff, 0x01}
		case zzBlobUnsignedHeader:
			h := zzCopyHeader(b1.header)
			h.Signature = nil
			return zzHeaderBlob(h)
		}
		pk, _ := crypto.MarshalPublicKey(e.pub)
		sgn := &pb.Signer{Address: e.addr, PubKey: pk}
		var msg proto.Message
		switch kind {
		case zzOddSignatureOnly:
			msg = &pb.SignedHeader{Signature: []byte{0xaa, 0xbb}}
		case zzOddOtherMessage:
			msg = &pb.Version{Block: 7, App: 9}
		case zzOddSignerOnly:
			msg = &pb.SignedHeader{Signer: sgn}
		case zzOddEmptyInnerHeader:
			msg = &pb.SignedHeader{Header: &pb.Header{}, Signature: []byte{1}, Signer: sgn}
		case zzOddDataWithoutMetadata:
			msg = &pb.SignedData{Data: &pb.Data{Txs: [][]byte{{1}}}, Signature: []byte{1}, Signer: sgn}
		case zzOddSignedDataWithoutData:
			msg = &pb.SignedData{Signature: []byte{1}, Signer: sgn}
		}
		if msg != nil {
			bz, err := proto.Marshal(msg)
			if err != nil {
				zzsym.Unsupported("cannot marshal an odd blob")
			}
			return bz
		}
		return nil
	}
	kinds := make([][]int, 2)
	for r := 0; r < 2; r++ {
		nb := 0
		if mode == 3 {
			rda.kind[r] = zzFetchOK
			if r == 0 {
				odd := zzOddSignatureOnly + zzsym.Pick("odd", zzOddEnd-zzOddSignatureOnly)
				kinds[r] = []int{odd, zzBlobHeader1}
				rda.blobs[r] = [][]byte{mk(odd), mk(zzBlobHeader1)}
			}
		} else if pairs {
			// blob pairs at the first height, plain successful fetches
			rda.kind[r] = zzFetchOK
			if r == 0 {
				nb = 2
			}
		} else if mode == 2 {
			// every defined error, on the listing or on a chunk, once or for a whole retry budget
			if r == 0 {
				rda.kind[r] = []int{zzFetchErrOnce, zzFetchErrPersist, zzFetchGetFailsOnce}[zzsym.Pick("fetch", 3)]
				nb = 1
				rda.errs[r] = allErrs[zzsym.Pick("err", len(allErrs))]
				if zzsym.Bool("errwrapped") {
					rda.errs[r] = fmt.Errorf("rpc failed: %w", rda.errs[r])
				}
			} else {
				rda.kind[r] = zzFetchOK
			}
		} else if r == 0 {
			rda.kind[r] = zzsym.Pick("fetch", zzFetchKinds)
			nb = zzsym.Pick("nblobs", zzC09MaxBlobs+1)
			if k := rda.kind[r]; false && k == zzFetchErrOnce {
				rda.errs[r] = allErrs[zzsym.Pick("err", len(allErrs))]
				if zzsym.Bool("errwrapped") {
					rda.errs[r] = fmt.Errorf("rpc failed: %w", rda.errs[r])
				}
			}
		} else {
			rda.kind[r] = []int{zzFetchOK, zzFetchNotFound, zzFetchFuture, zzFetchErrOnce}[zzsym.Pick("fetch", 4)]
			nb = zzsym.Pick("nblobs", zzC09MaxBlobs+1)
		}
		for i := 0; i < nb; i++ {
			k := zzBlobHeader1
			if mode != 2 {
				k = zzsym.Pick("blob", zzBlobKinds)
			}
			kinds[r] = append(kinds[r], k)
			rda.blobs[r] = append(rda.blobs[r], mk(k))
		}
	}
	st := types.State{ChainID: e.chainID, InitialHeight: 1, LastBlockHeight: H, DAHeight: a}
	m := e.zzManager(st)
	m.da = rda
	ctx, cancel := context.WithCancel(context.Background())
	m.retrieveCh <- struct{}{}
	wake := func() {
		select {
		case m.retrieveCh <- struct{}{}:
		default:
		}
	}
	zzsym.SetIdleDelay(1300) // native replay: longer than one retry budget (10 x 100 ms)
	zzsym.OnIdle(wake)
	zzsym.OnIdle(wake)
	zzsym.OnIdle(wake)
	zzsym.OnIdle(cancel)
	m.RetrieveLoop(ctx)
	cancel()
	zzsym.Reach("loop-returned")

	// 1. heights are examined in order, from the start, never skipping
	zzsym.Assert(len(rda.idsLog) > 0 && rda.idsLog[0] == a, "scan-starts-at-configured-height")
	for i := 1; i < len(rda.idsLog); i++ {
		zzsym.Assert(rda.idsLog[i] == rda.idsLog[i-1] || rda.idsLog[i] == rda.idsLog[i-1]+1, "scan-never-skips-or-goes-back")
	}
	// 2. a height is left only after a successful fetch or a confirmed not-found
	cur := m.daHeight.Load()
	zzsym.Assert(cur >= a && cur <= a+2, "cursor-in-window")
	for r := 0; r < 2; r++ {
		if cur > a+uint64(r) {
			k := rda.kind[r]
			zzsym.Assert(k != zzFetchFuture, "never-passes-a-height-from-the-future")
			// errors were retried until they went away
			if k == zzFetchErrOnce || (k == zzFetchGetFailsOnce && len(kinds[r]) > 0) {
				zzsym.Assert(rda.fails[r] == 1, "transient-error-was-retried")
			}
			if k == zzFetchErrPersist {
				zzsym.Assert(rda.fails[r] == 10, "persistent-error-was-retried")
			}
		}
	}
	// with three extra wake-ups everything that can be passed has been passed
	for r := 0; r < 2; r++ {
		if rda.kind[r] == zzFetchFuture {
			zzsym.Assert(cur <= a+uint64(r), "waits-at-future-height")
			break
		}
	}
	// 3. genuine blobs at a passed height were handed to sync, junk was not
	wantH, wantD := 0, 0
	for r := 0; r < 2; r++ {
		if cur <= a+uint64(r) {
			break
		}
		fetched := rda.kind[r] == zzFetchOK || rda.kind[r] == zzFetchErrOnce || rda.kind[r] == zzFetchErrPersist || rda.kind[r] == zzFetchGetFailsOnce
		if !fetched {
			continue
		}
		for _, k := range kinds[r] {
			switch k {
			case zzBlobHeader1, zzBlobHeader2:
				wantH++
				hh := b1.header
				if k == zzBlobHeader2 {
					hh = b2.header
				}
				got, ok := m.headerCache.GetDAIncludedHeight(hh.Hash().String())
				at := false
				for r2 := 0; r2 < 2; r2++ {
					for _, k2 := range kinds[r2] {
						if k2 == k && got == a+uint64(r2) && cur > a+uint64(r2) {
							at = true
						}
					}
				}
				zzsym.Assert(ok && at, "genuine-header-marked-with-a-da-height-it-is-at")
			case zzBlobData1:
				wantD++
				zzsym.Assert(m.dataCache.IsDAIncluded(b1.data.DACommitment().String()), "genuine-data-marked")
			}
		}
	}
	zzsym.Assert(len(m.headerInCh) == wantH, "every-genuine-header-handed-to-sync-and-nothing-else")
	zzsym.Assert(len(m.dataInCh) == wantD, "every-genuine-data-handed-to-sync-and-nothing-else")
	for len(m.headerInCh) > 0 {
		ev := <-m.headerInCh
		zzsym.Assert(e.zzVerifies(ev.Header), "handed-header-verifies-under-proposer-key")
		zzsym.Assert(bytes.Equal(ev.Header.Hash(), b1.header.Hash()) || bytes.Equal(ev.Header.Hash(), b2.header.Hash()), "handed-header-is-genuine")
	}
	zzsym.ObserveU64("passed", cur-a)
}
