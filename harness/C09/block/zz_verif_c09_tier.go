package block

// blobs per DA height in the scan lemma: 0..1 (0..2 was tried for the thorough tier: does not finish in 40 min, so it is not registered)
var zzC09MaxBlobs = 1
