package single

var zzC10Ops = 5
