package single

import (
	"bytes"
	"context"
	"errors"

	ds "github.com/ipfs/go-datastore"
	"github.com/ipfs/go-datastore/query"
	logging "github.com/ipfs/go-log/v2"

	coresequencer "github.com/evstack/ev-node/core/sequencer"
	"github.com/evstack/ev-node/sequencers/single/internal/zzsym"
)

// zzKV: the datastore contract the queue relies on.  Put/Delete are durable
// and atomic per key; Query returns every live entry in an order chosen by the
// datastore (real stores iterate in key order, and the keys here are hashes,
// i.e. an order the queue cannot choose) -- modelled as an arbitrary
// permutation.  Durable writes are counted for crash injection.
type zzKV struct {
	keys    []string
	vals    [][]byte
	writes  int
	crashAt int
	dead    bool
}

var zzErrCrash = errors.New("zz: crashed")

func (k *zzKV) find(key string) int {
	for i, x := range k.keys {
		if x == key {
			return i
		}
	}
	return -1
}
func (k *zzKV) durable() bool {
	if k.dead {
		return false
	}
	if k.crashAt >= 0 && k.writes == k.crashAt {
		k.dead = true
		return false
	}
	k.writes++
	return true
}
func (k *zzKV) Get(ctx context.Context, key ds.Key) ([]byte, error) {
	if i := k.find(key.String()); i >= 0 {
		return k.vals[i], nil
	}
	return nil, ds.ErrNotFound
}
func (k *zzKV) Has(ctx context.Context, key ds.Key) (bool, error) {
	return k.find(key.String()) >= 0, nil
}
func (k *zzKV) GetSize(ctx context.Context, key ds.Key) (int, error) {
	if i := k.find(key.String()); i >= 0 {
		return len(k.vals[i]), nil
	}
	return -1, ds.ErrNotFound
}
func (k *zzKV) Put(ctx context.Context, key ds.Key, value []byte) error {
	zzsym.Yield() // I/O: another submitter or the consumer may run here
	if !k.durable() {
		return zzErrCrash
	}
	if i := k.find(key.String()); i >= 0 {
		k.vals[i] = append([]byte(nil), value...)
		return nil
	}
	k.keys = append(k.keys, key.String())
	k.vals = append(k.vals, append([]byte(nil), value...))
	return nil
}
func (k *zzKV) Delete(ctx context.Context, key ds.Key) error {
	zzsym.Yield()
	if !k.durable() {
		return zzErrCrash
	}
	if i := k.find(key.String()); i >= 0 {
		k.keys = append(k.keys[:i:i], k.keys[i+1:]...)
		k.vals = append(k.vals[:i:i], k.vals[i+1:]...)
	}
	return nil
}
func (k *zzKV) Sync(ctx context.Context, prefix ds.Key) error { return nil }
func (k *zzKV) Close() error                                  { return nil }
func (k *zzKV) Batch(ctx context.Context) (ds.Batch, error) {
	zzsym.Unsupported("zzKV.Batch")
	return nil, nil
}

type zzResults struct {
	q  query.Query
	ch chan query.Result
}

func (r *zzResults) Query() query.Query        { return r.q }
func (r *zzResults) Next() <-chan query.Result { return r.ch }
func (r *zzResults) NextSync() (query.Result, bool) {
	v, ok := <-r.ch
	return v, ok
}
func (r *zzResults) Rest() ([]query.Entry, error) { return nil, nil }
func (r *zzResults) Close() error                 { return nil }
func (r *zzResults) Done() <-chan struct{}        { return nil }

var zzPerms3 = [][]int{{0, 1, 2}, {0, 2, 1}, {1, 0, 2}, {1, 2, 0}, {2, 0, 1}, {2, 1, 0}}

func (k *zzKV) Query(ctx context.Context, q query.Query) (query.Results, error) {
	n := len(k.keys)
	if n > 5 {
		zzsym.Unsupported("zzKV.Query with more than 5 live entries")
	}
	order := []int{0, 1, 2, 3, 4}[:n]
	if n > 3 {
		// any permutation, chosen element by element
		rest := append([]int(nil), order...)
		order = nil
		for len(rest) > 1 {
			k := zzsym.Pick("kvorderN", len(rest))
			order = append(order, rest[k])
			rest = append(rest[:k:k], rest[k+1:]...)
		}
		order = append(order, rest[0])
	}
	if n == 2 && zzsym.Bool("kvorder2") {
		order = []int{1, 0}
	}
	if n == 3 {
		order = zzPerms3[zzsym.Pick("kvorder3", 6)]
	}
	ch := make(chan query.Result, 8)
	for _, i := range order {
		ch <- query.Result{Entry: query.Entry{Key: k.keys[i], Value: k.vals[i], Size: len(k.vals[i])}}
	}
	close(ch)
	return &zzResults{q: q, ch: ch}, nil
}

func zzNewSeq(kv *zzKV, maxQ int) *Sequencer {
	s := &Sequencer{logger: logging.Logger("zz"), Id: []byte("chain"), queue: &BatchQueue{queue: make([]coresequencer.Batch, 0), maxQueueSize: maxQ, db: kv}}
	if err := s.queue.Load(context.Background()); err != nil {
		zzsym.Unsupported("Load failed on a live datastore")
	}
	return s
}

func zzBatchEq(a *coresequencer.Batch, b coresequencer.Batch) bool {
	if a == nil || len(a.Transactions) != len(b.Transactions) {
		return false
	}
	for i := range b.Transactions {
		if !bytes.Equal(a.Transactions[i], b.Transactions[i]) {
			return false
		}
	}
	return true
}

// ZZ_C10_history: every history of up to zzC10Ops operations over
// {submit (valid, foreign chain id, empty), next, restart}, batches of one
// 1-byte transaction (so equal batches occur), queue bound 0 (unlimited) or 2.
// The handed-out sequence equals the reference FIFO of accepted batches.
func ZZ_C10_history() {
	kv := &zzKV{crashAt: -1}
	maxQ := []int{0, 2}[zzsym.Pick("maxq", 2)]
	s := zzNewSeq(kv, maxQ)
	ctx := context.Background()
	var ref []coresequencer.Batch // accepted and not yet handed out, in order
	restarted, dup := false, false
	for op := 0; op < zzC10Ops; op++ {
		switch zzsym.Pick("op", 5) {
		case 0: // valid submission
			b := coresequencer.Batch{Transactions: [][]byte{zzsym.BytesN("tx", 1)}}
			for _, r := range ref {
				if bytes.Equal(r.Transactions[0], b.Transactions[0]) {
					dup = true
				}
			}
			_, err := s.SubmitBatchTxs(ctx, coresequencer.SubmitBatchTxsRequest{Id: []byte("chain"), Batch: &b})
			if maxQ > 0 && len(ref) >= maxQ {
				zzsym.Assert(errors.Is(err, ErrQueueFull), "full-queue-rejects")
				zzsym.Assert(len(kv.keys) <= maxQ, "rejected-submission-leaves-no-trace")
			} else {
				zzsym.Assert(err == nil, "submission-accepted")
				ref = append(ref, b)
			}
		case 1: // foreign chain id
			b := coresequencer.Batch{Transactions: [][]byte{zzsym.BytesN("ftx", 1)}}
			n := len(kv.keys)
			_, err := s.SubmitBatchTxs(ctx, coresequencer.SubmitBatchTxsRequest{Id: []byte("other"), Batch: &b})
			zzsym.Assert(errors.Is(err, ErrInvalidId), "foreign-chain-id-rejected")
			zzsym.Assert(len(kv.keys) == n, "foreign-submission-leaves-no-trace")
		case 2: // empty submission
			n := len(kv.keys)
			_, err := s.SubmitBatchTxs(ctx, coresequencer.SubmitBatchTxsRequest{Id: []byte("chain"), Batch: &coresequencer.Batch{}})
			zzsym.Assert(err == nil && len(kv.keys) == n, "empty-submission-is-a-noop")
		case 3: // next
			res, err := s.GetNextBatch(ctx, coresequencer.GetNextBatchRequest{Id: []byte("chain")})
			zzsym.Assert(err == nil && res != nil && res.Batch != nil, "next-never-fails")
			if err != nil || res == nil || res.Batch == nil {
				return
			}
			if len(ref) == 0 {
				zzsym.Assert(len(res.Batch.Transactions) == 0, "next-on-empty-queue-is-empty")
			} else {
				zzsym.Region("restarted-with-several-pending", restarted)
				zzsym.Region("equal-batches-pending", dup)
				zzsym.Assert(zzBatchEq(res.Batch, ref[0]), "batches-handed-out-in-acceptance-order")
				ref = ref[1:]
			}
		case 4: // restart: reload from the database
			s = zzNewSeq(kv, maxQ)
			if len(ref) >= 2 {
				restarted = true
			}
			zzsym.Region("equal-batches-pending", dup)
			zzsym.Assert(len(s.queue.queue) == len(ref), "pending-batches-survive-restart")
		}
	}
	zzsym.Reach("history-done")
	if maxQ > 0 {
		zzsym.Assert(len(s.queue.queue) <= maxQ, "queue-bound-respected")
	}
}

// ZZ_C10_concurrent: concurrent use of one sequencer with queue bound 2 and
// 0..1 batches already pending: two submitters with distinct batches, or one
// submitter and one consumer, interleaved in every way at the granularity of
// the datastore operations (each Put/Delete is a point where the other thread
// may run; a thread needing a held lock waits).  Afterwards: every submission
// was accepted or rejected as full, the bound holds, the database holds
// exactly the pending accepted batches (a rejected one left no trace), and a
// restart hands out exactly those.
func ZZ_C10_concurrent() {
	kv := &zzKV{crashAt: -1}
	const maxQ = 2
	s := zzNewSeq(kv, maxQ)
	ctx := context.Background()
	id := []byte("chain")
	pre := zzsym.Pick("pending-before", 2)
	batches := []coresequencer.Batch{{Transactions: [][]byte{{0x10}}}, {Transactions: [][]byte{{0x21}}}, {Transactions: [][]byte{{0x22}}}}
	var pending []coresequencer.Batch
	if pre == 1 {
		_, err := s.SubmitBatchTxs(ctx, coresequencer.SubmitBatchTxsRequest{Id: id, Batch: &batches[0]})
		zzsym.Assert(err == nil, "submission-accepted")
		pending = append(pending, batches[0])
	}
	var errA, errB error
	var got *coresequencer.GetNextBatchResponse
	consumer := zzsym.Bool("consumer-instead-of-second-submitter")
	zzsym.Go(func() {
		_, errA = s.SubmitBatchTxs(ctx, coresequencer.SubmitBatchTxsRequest{Id: id, Batch: &batches[1]})
	})
	if consumer {
		zzsym.Go(func() { got, errB = s.GetNextBatch(ctx, coresequencer.GetNextBatchRequest{Id: id}) })
	} else {
		zzsym.Go(func() {
			_, errB = s.SubmitBatchTxs(ctx, coresequencer.SubmitBatchTxsRequest{Id: id, Batch: &batches[2]})
		})
	}
	zzsym.Join()
	zzsym.Reach("joined")
	okA, okB := errA == nil, errB == nil
	zzsym.Assert(okA || errors.Is(errA, ErrQueueFull), "submission-accepted-or-rejected-as-full")
	if consumer {
		zzsym.Assert(okB && got != nil && got.Batch != nil, "next-never-fails")
		if !okB || got == nil || got.Batch == nil {
			return
		}
		zzsym.Assert(okA, "submission-below-the-bound-accepted")
		if okA {
			pending = append(pending, batches[1])
		}
		// the consumer got the head of the queue at its linearisation point, or nothing
		if len(got.Batch.Transactions) > 0 {
			zzsym.Assert(len(pending) > 0 && zzBatchEq(got.Batch, pending[0]), "batches-handed-out-in-acceptance-order")
			if len(pending) > 0 {
				pending = pending[1:]
			}
		} else {
			zzsym.Assert(pre == 0, "next-on-non-empty-queue-hands-out")
		}
	} else {
		zzsym.Assert(okB || errors.Is(errB, ErrQueueFull), "submission-accepted-or-rejected-as-full")
		free := maxQ - pre
		n := 0
		if okA {
			n++
			pending = append(pending, batches[1])
		}
		if okB {
			n++
			pending = append(pending, batches[2])
		}
		zzsym.Assert(n <= free, "queue-bound-respected")
		zzsym.Assert(n == 2 || free < 2, "submission-below-the-bound-accepted")
		zzsym.Assert(n >= 1, "submission-below-the-bound-accepted")
	}
	zzsym.Assert(len(s.queue.queue) == len(pending), "in-memory-queue-holds-exactly-the-pending-batches")
	zzsym.Assert(len(kv.keys) == len(pending), "rejected-submission-leaves-no-trace")
	// restart: exactly the pending batches are handed out (order between the two
	// concurrent submissions is not determined; a single pending batch is)
	s2 := zzNewSeq(kv, maxQ)
	zzsym.Assert(len(s2.queue.queue) == len(pending), "pending-batches-survive-restart")
	seen := 0
	for i := 0; i < len(pending)+1; i++ {
		res, err := s2.GetNextBatch(ctx, coresequencer.GetNextBatchRequest{Id: id})
		zzsym.Assert(err == nil && res != nil && res.Batch != nil, "next-never-fails")
		if err != nil || res == nil || res.Batch == nil || len(res.Batch.Transactions) == 0 {
			break
		}
		found := false
		for _, p := range pending {
			if zzBatchEq(res.Batch, p) {
				found = true
			}
		}
		zzsym.Assert(found, "only-accepted-batches-are-handed-out-after-restart")
		seen++
	}
	zzsym.Assert(seen == len(pending), "pending-batches-survive-restart")
}
