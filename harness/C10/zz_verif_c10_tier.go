package single

// operations per history: quick 4, thorough 5
var zzC10Ops = 4
