package block

import (
	"bytes"
	"context"

	coresequencer "github.com/evstack/ev-node/core/sequencer"
	"github.com/evstack/ev-node/internal/zzsym"
	"github.com/evstack/ev-node/types"
)

type zzMempoolExec struct {
	zzExec
	txs [][]byte
}

func (e *zzMempoolExec) GetTxs(ctx context.Context) ([][]byte, error) { return e.txs, nil }

type zzRecSeq struct {
	zzSeq
	refuse  bool
	batches [][][]byte
}

func (s *zzRecSeq) SubmitBatchTxs(ctx context.Context, req coresequencer.SubmitBatchTxsRequest) (*coresequencer.SubmitBatchTxsResponse, error) {
	if s.refuse {
		return nil, zzErrInjected // queue full
	}
	s.batches = append(s.batches, req.Batch.Transactions)
	return &coresequencer.SubmitBatchTxsResponse{}, nil
}

func zzHandedOver(s *zzRecSeq, tx []byte) int {
	n := 0
	for _, b := range s.batches {
		for _, t := range b {
			if bytes.Equal(t, tx) {
				n++
			}
		}
	}
	return n
}

// ZZ_C11_reap: one reaping step.  The mempool returns up to three
// transactions (1 symbolic byte each, or one large transaction of 700 000
// bytes; repeats possible), an arbitrary subset is already in the persistent
// seen-set, the sequencing layer accepts or refuses, the seen-set may die at
// an arbitrary write.  Every new transaction is handed over; nothing is marked
// seen unless it was handed over; a refusal leaves the seen-set unchanged.
func ZZ_C11_reap() {
	zzsym.FreezeClock()
	e := zzNewEnv(1)
	n := zzsym.Pick("ntx", zzC11MaxTxs+1)
	var pool [][]byte
	for i := 0; i < n; i++ {
		if zzsym.Bool("large") {
			big := make([]byte, 700000)
			big[0] = byte(i + 1)
			pool = append(pool, big)
		} else {
			pool = append(pool, zzsym.BytesN("tx", 1))
		}
	}
	seen := &zzSeen{m: map[string]bool{}}
	var preSeen []bool
	for _, tx := range pool {
		p := zzsym.Bool("alreadySeen")
		preSeen = append(preSeen, p)
		if p {
			seen.m["/"+hashTx(tx)] = true
		}
	}
	seq := &zzRecSeq{refuse: zzsym.Bool("sequencerRefuses")}
	if zzsym.Bool("seenStoreDies") {
		seen.useCrash = true
		seen.crashAt = zzsym.Pick("crashAt", 3)
	}
	before := len(seen.m)
	r := NewReaper(context.Background(), &zzMempoolExec{txs: pool}, seq, e.chainID, 0, m0logger(), seen)
	m := e.zzManager(types.State{ChainID: e.chainID, InitialHeight: 1})
	r.SetManager(m)
	r.SubmitTxs()
	zzsym.Reach("reaped")
	for i, tx := range pool {
		wasSeen := preSeen[i]
		for j := range pool {
			if preSeen[j] && bytes.Equal(pool[j], tx) {
				wasSeen = true
			}
		}
		nowSeen := seen.m["/"+hashTx(tx)]
		if seq.refuse {
			zzsym.Assert(zzHandedOver(seq, tx) == 0, "refused-hand-off-hands-nothing")
			zzsym.Assert(nowSeen == wasSeen, "refused-hand-off-is-retried-not-forgotten")
			continue
		}
		if wasSeen {
			zzsym.Assert(zzHandedOver(seq, tx) == 0, "seen-transaction-not-handed-over-again")
		} else {
			zzsym.Assert(zzHandedOver(seq, tx) >= 1, "every-new-transaction-is-handed-to-the-sequencer")
		}
		if nowSeen && !wasSeen {
			zzsym.Assert(zzHandedOver(seq, tx) >= 1, "marked-seen-only-after-hand-over")
		}
	}
	if seq.refuse {
		zzsym.Assert(len(seen.m) == before, "refusal-leaves-seen-set-unchanged")
		zzsym.Assert(len(m.txNotifyCh) == 0, "no-notification-without-hand-over")
	} else if len(seq.batches) > 0 {
		zzsym.Assert(len(m.txNotifyCh) == 1, "manager-notified-of-new-transactions")
	}
}

// zzQueueSeq: the sequencing layer as the single sequencer implements it
// (C10): a batch handed out is durably removed from its queue at that moment.
type zzQueueSeq struct {
	zzSeq
	queue [][][]byte
	ts    []int64
}

func (s *zzQueueSeq) GetNextBatch(ctx context.Context, req coresequencer.GetNextBatchRequest) (*coresequencer.GetNextBatchResponse, error) {
	if len(s.queue) == 0 {
		return &coresequencer.GetNextBatchResponse{Batch: &coresequencer.Batch{}, Timestamp: zzsym.TimeOf(1 << 60)}, nil
	}
	b, t := s.queue[0], s.ts[0]
	s.queue, s.ts = s.queue[1:], s.ts[1:]
	return &coresequencer.GetNextBatchResponse{Batch: &coresequencer.Batch{Transactions: b}, Timestamp: zzsym.TimeOf(t)}, nil
}

// ZZ_C11_take: a batch of one transaction is taken from the sequencing layer
// by a production step that dies at an arbitrary durable write (or is not
// interrupted at all), with an arbitrary batch timestamp.  Afterwards the
// transaction is either still with the sequencing layer or in a block the
// node has stored at the next height -- it is not lost.
func ZZ_C11_take() {
	zzsym.FreezeClock()
	I, H := zzHeights()
	e := zzNewEnv(I)
	m, tip := zzInvState(e, H)
	tx := zzsym.BytesN("tx", 1)
	ts := zzTimeNs("batchTime")
	q := &zzQueueSeq{queue: [][][]byte{{tx}}, ts: []int64{ts}}
	m.sequencer = q
	crash := zzsym.Pick("crashAt", 7)
	if crash < 6 {
		e.store.crashAt = crash
	}
	zzsym.Region("dies-before-the-block-is-first-saved", crash < 2)
	zzsym.Region("batch-stamped-before-the-chain-tip", ts < int64(tip.header.BaseHeader.Time))
	_ = m.publishBlockInternal(context.Background())
	zzsym.Reach("step-ended")
	stillQueued := len(q.queue) > 0
	inBlock := false
	if sl, ok := e.store.blocks[H+1]; ok {
		for _, t := range sl.data.Txs {
			if bytes.Equal(t, tx) {
				inBlock = true
			}
		}
	}
	zzsym.Assert(stillQueued || inBlock, "taken-transaction-is-not-lost")
	// ... and it reaches a committed block: the node restarts (real NewManager
	// on the durable image, the sequencing layer keeps its queue), another
	// batch arrives, two crash-free production steps run
	e.store = e.store.reopen()
	m2, err := NewManager(context.Background(), e.signer, e.cfg, e.gen, e.store, e.exec, q, nil, m0logger(), nil, nil, e.hb, e.db, NopMetrics(), 1, 1, DefaultManagerOptions())
	zzsym.Assert(err == nil, "restart-after-take")
	if err != nil {
		return
	}
	later := int64(tip.header.BaseHeader.Time)
	if ts > later {
		later = ts
	}
	q.queue = append(q.queue, [][]byte{{0x77, 0x77}})
	q.ts = append(q.ts, later+1)
	_ = m2.publishBlockInternal(context.Background())
	_ = m2.publishBlockInternal(context.Background())
	committed := false
	for h := H + 1; h <= e.store.height && h <= H+3; h++ {
		if sl, ok := e.store.blocks[h]; ok {
			for _, t := range sl.data.Txs {
				if bytes.Equal(t, tx) {
					committed = true
				}
			}
		}
	}
	zzsym.Assert(committed || len(q.queue) > 0 && bytes.Equal(q.queue[0][0], tx), "taken-transaction-reaches-a-committed-block")
	zzsym.Reach("after-restart")
}
