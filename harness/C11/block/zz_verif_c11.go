package block

import (
	"bytes"
	"context"

	coresequencer "github.com/evstack/ev-node/core/sequencer"
	"github.com/evstack/ev-node/internal/zzsym"
	"github.com/evstack/ev-node/types"
)

type zzMempoolExec struct {
	zzExec
	txs [][]byte
}

func (e *zzMempoolExec) GetTxs(ctx context.Context) ([][]byte, error) { return e.txs, nil }

type zzRecSeq struct {
	zzSeq
	refuse  bool
	batches [][][]byte
}

func (s *zzRecSeq) SubmitBatchTxs(ctx context.Context, req coresequencer.SubmitBatchTxsRequest) (*coresequencer.SubmitBatchTxsResponse, error) {
	if s.refuse {
		return nil, zzErrInjected // queue full
	}
	s.batches = append(s.batches, req.Batch.Transactions)
	return &coresequencer.SubmitBatchTxsResponse{}, nil
}

func zzHandedOver(s *zzRecSeq, tx []byte) int {
	n := 0
	for _, b := range s.batches {
		for _, t := range b {
			if bytes.Equal(t, tx) {
				n++
			}
		}
	}
	return n
}

// ZZ_C11_reap: one reaping step.  The mempool returns up to three
// transactions (1 symbolic byte each, or one large transaction of 700 000
// bytes; repeats possible), an arbitrary subset is already in the persistent
// seen-set, the sequencing layer accepts or refuses, the seen-set may die at
// an arbitrary write.  Every new transaction is handed over; nothing is marked
// seen unless it was handed over; a refusal leaves the seen-set unchanged.
func ZZ_C11_reap() {
	zzsym.FreezeClock()
	e := zzNewEnv(1)
	n := zzsym.Pick("ntx", 4)
	var pool [][]byte
	for i := 0; i < n; i++ {
		if zzsym.Bool("large") {
			big := make([]byte, 700000)
			big[0] = byte(i + 1)
			pool = append(pool, big)
		} else {
			pool = append(pool, zzsym.BytesN("tx", 1))
		}
	}
	seen := &zzSeen{m: map[string]bool{}}
	var preSeen []bool
	for _, tx := range pool {
		p := zzsym.Bool("alreadySeen")
		preSeen = append(preSeen, p)
		if p {
			seen.m["/"+hashTx(tx)] = true
		}
	}
	seq := &zzRecSeq{refuse: zzsym.Bool("sequencerRefuses")}
	if zzsym.Bool("seenStoreDies") {
		seen.useCrash = true
		seen.crashAt = zzsym.Pick("crashAt", 3)
	}
	before := len(seen.m)
	r := NewReaper(context.Background(), &zzMempoolExec{txs: pool}, seq, e.chainID, 0, m0logger(), seen)
	m := e.zzManager(types.State{ChainID: e.chainID, InitialHeight: 1})
	r.SetManager(m)
	r.SubmitTxs()
	zzsym.Reach("reaped")
	for i, tx := range pool {
		wasSeen := preSeen[i]
		for j := range pool {
			if preSeen[j] && bytes.Equal(pool[j], tx) {
				wasSeen = true
			}
		}
		nowSeen := seen.m["/"+hashTx(tx)]
		if seq.refuse {
			zzsym.Assert(zzHandedOver(seq, tx) == 0, "refused-hand-off-hands-nothing")
			zzsym.Assert(nowSeen == wasSeen, "refused-hand-off-is-retried-not-forgotten")
			continue
		}
		if wasSeen {
			zzsym.Assert(zzHandedOver(seq, tx) == 0, "seen-transaction-not-handed-over-again")
		} else {
			zzsym.Assert(zzHandedOver(seq, tx) >= 1, "every-new-transaction-is-handed-to-the-sequencer")
		}
		if nowSeen && !wasSeen {
			zzsym.Assert(zzHandedOver(seq, tx) >= 1, "marked-seen-only-after-hand-over")
		}
	}
	if seq.refuse {
		zzsym.Assert(len(seen.m) == before, "refusal-leaves-seen-set-unchanged")
		zzsym.Assert(len(m.txNotifyCh) == 0, "no-notification-without-hand-over")
	} else if len(seq.batches) > 0 {
		zzsym.Assert(len(m.txNotifyCh) == 1, "manager-notified-of-new-transactions")
	}
}
