package block

// mempool transactions per reaping step: 0..3 (0..4 was tried for the thorough tier: a solver unknown, so it is not registered)
var zzC11MaxTxs = 3
