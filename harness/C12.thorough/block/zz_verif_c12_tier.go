package block

var (
	zzC12CursorBytes = 16
	zzC12EntryBytes  = 5
)
