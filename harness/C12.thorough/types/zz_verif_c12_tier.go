package types

var zzC12TxBytes = 4
