package block

import (
	"bytes"

	"github.com/evstack/ev-node/internal/zzsym"
)

// ZZ_C12_cursor_decode_total: for EVERY input of up to 12 bytes the batch-cursor
// decoder returns or errors (never panics); on success re-encoding gives the
// input back and decoding that again is a fixpoint.
func ZZ_C12_cursor_decode_total() {
	in := zzsym.Bytes("in", zzC12CursorBytes)
	out, err := bytesToBatchData(in)
	if err != nil {
		zzsym.Reach("decode-error")
		return
	}
	zzsym.Reach("decode-ok")
	zzsym.ObserveU64("entries", uint64(len(out)))
	re := convertBatchDataToBytes(out)
	zzsym.Assert(bytes.Equal(re, in), "reencode-equals-input")
	out2, err2 := bytesToBatchData(re)
	zzsym.Assert(err2 == nil, "redecode-ok")
	zzsym.Assert(len(out2) == len(out), "redecode-same-count")
	for i := range out {
		if i < len(out2) {
			zzsym.Assert(bytes.Equal(out[i], out2[i]), "redecode-same-entry")
		}
	}
}

// ZZ_C12_cursor_roundtrip: decode(encode(x)) == x for up to 3 entries of up
// to 3 bytes each (nil list is equivalent to the empty list).
func ZZ_C12_cursor_roundtrip() {
	n := zzsym.Pick("n", 4)
	var x [][]byte
	for i := 0; i < n; i++ {
		x = append(x, zzsym.Bytes("e", zzC12EntryBytes))
	}
	enc := convertBatchDataToBytes(x)
	zzsym.ObserveBytes("enc", enc)
	dec, err := bytesToBatchData(enc)
	zzsym.Assert(err == nil, "decode-of-encode-ok")
	zzsym.Assert(len(dec) == len(x), "same-count")
	for i := range x {
		if i < len(dec) {
			zzsym.Assert(bytes.Equal(dec[i], x[i]), "same-entry")
		}
	}
	zzsym.Reach("roundtrip-done")
}
