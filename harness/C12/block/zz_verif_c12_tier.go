package block

// batch-cursor codec: arbitrary input of up to 12 bytes (thorough 16), entries of 0..3 bytes (thorough 0..5)
var (
	zzC12CursorBytes = 12
	zzC12EntryBytes  = 3
)
