package types

// transaction sizes: quick 0..2 bytes, thorough 0..4
var zzC12TxBytes = 2
