package types

import (
	"bytes"
	crand "crypto/rand"
	"crypto/sha256"
	"time"

	"github.com/libp2p/go-libp2p/core/crypto"

	"github.com/evstack/ev-node/internal/zzsym"
	pb "github.com/evstack/ev-node/types/pb/evnode/v1"
)

// ---- helpers -------------------------------------------------------------

// zzBytesMode: nil / empty / 1 symbolic byte / 2 symbolic bytes / 32 symbolic bytes
func zzBytesMode(name string, mode int) []byte {
	switch mode {
	case 0:
		return nil
	case 1:
		return []byte{}
	case 2:
		return zzsym.BytesN(name, 1)
	case 3:
		return zzsym.BytesN(name, 2)
	}
	return zzsym.BytesN(name, 32)
}

func zzChainID(name string) string {
	switch zzsym.Pick(name, 3) {
	case 0:
		return ""
	case 1:
		return "a"
	}
	return "chain-1"
}

// nil and empty byte strings are the same thing on the proto3 wire
func zzSameBytes(a, b []byte) bool { return bytes.Equal(a, b) }

func zzHeader(pfx string, mode int) Header {
	return Header{
		BaseHeader:      BaseHeader{Height: zzsym.U64(pfx + "height"), Time: zzsym.U64(pfx + "time"), ChainID: zzChainID(pfx + "chain")},
		Version:         Version{Block: zzsym.U64(pfx + "vblock"), App: zzsym.U64(pfx + "vapp")},
		LastHeaderHash:  zzBytesMode(pfx+"lhh", mode),
		LastCommitHash:  zzBytesMode(pfx+"lch", mode),
		DataHash:        zzBytesMode(pfx+"dh", mode),
		ConsensusHash:   zzBytesMode(pfx+"ch", mode),
		AppHash:         zzBytesMode(pfx+"ah", mode),
		LastResultsHash: zzBytesMode(pfx+"lrh", mode),
		ValidatorHash:   zzBytesMode(pfx+"vh", mode),
		ProposerAddress: zzBytesMode(pfx+"pa", mode),
	}
}

func zzHeaderEq(a, b *Header) bool {
	return a.BaseHeader.Height == b.BaseHeader.Height && a.BaseHeader.Time == b.BaseHeader.Time &&
		a.BaseHeader.ChainID == b.BaseHeader.ChainID && a.Version == b.Version &&
		zzSameBytes(a.LastHeaderHash, b.LastHeaderHash) && zzSameBytes(a.LastCommitHash, b.LastCommitHash) &&
		zzSameBytes(a.DataHash, b.DataHash) && zzSameBytes(a.ConsensusHash, b.ConsensusHash) &&
		zzSameBytes(a.AppHash, b.AppHash) && zzSameBytes(a.LastResultsHash, b.LastResultsHash) &&
		zzSameBytes(a.ValidatorHash, b.ValidatorHash) && zzSameBytes(a.ProposerAddress, b.ProposerAddress)
}

// ---- group 2: round trips -------------------------------------------------

// ZZ_C12_header_roundtrip: decode(encode(h)) == h (nil == empty) and the hash
// is unchanged, for every header whose byte fields are all nil / all empty /
// all 1, 2 or 32 symbolic bytes, any integers, three chain ids.
func ZZ_C12_header_roundtrip() {
	mode := zzsym.Pick("mode", 5)
	h := zzHeader("", mode)
	bz, err := h.MarshalBinary()
	zzsym.Assert(err == nil, "header-marshal-ok")
	var g Header
	err = g.UnmarshalBinary(bz)
	zzsym.Assert(err == nil, "header-unmarshal-ok")
	zzsym.Assert(zzHeaderEq(&h, &g), "header-roundtrip-equal")
	zzsym.Assert(bytes.Equal(h.Hash(), g.Hash()), "header-hash-stable")
	bz2, _ := g.MarshalBinary()
	zzsym.Assert(bytes.Equal(bz, bz2), "header-reencode-identical")
	zzsym.Reach("header-roundtrip")
}

// ZZ_C12_header_one_field: one byte field differs in shape from the others.
func ZZ_C12_header_one_field() {
	h := zzHeader("", 0)
	which := zzsym.Pick("which", 8)
	v := zzBytesMode("odd", 1+zzsym.Pick("oddmode", 3))
	switch which {
	case 0:
		h.LastHeaderHash = v
	case 1:
		h.LastCommitHash = v
	case 2:
		h.DataHash = v
	case 3:
		h.ConsensusHash = v
	case 4:
		h.AppHash = v
	case 5:
		h.LastResultsHash = v
	case 6:
		h.ValidatorHash = v
	case 7:
		h.ProposerAddress = v
	}
	bz, _ := h.MarshalBinary()
	var g Header
	err := g.UnmarshalBinary(bz)
	zzsym.Assert(err == nil, "header1-unmarshal-ok")
	zzsym.Assert(zzHeaderEq(&h, &g), "header1-roundtrip-equal")
	zzsym.Reach("header1")
}

func zzData(pfx string) *Data {
	d := &Data{}
	if zzsym.Bool(pfx + "hasmeta") {
		d.Metadata = &Metadata{ChainID: zzChainID(pfx + "mchain"), Height: zzsym.U64(pfx + "mheight"), Time: zzsym.U64(pfx + "mtime"),
			LastDataHash: zzBytesMode(pfx+"ldh", zzsym.Pick(pfx+"ldhmode", 4))}
	}
	switch n := zzsym.Pick(pfx+"ntx", 5); n {
	case 0:
		d.Txs = nil
	case 1:
		d.Txs = Txs{}
	default:
		for i := 1; i < n; i++ {
			d.Txs = append(d.Txs, Tx(zzsym.Bytes(pfx+"tx", zzC12TxBytes)))
		}
	}
	return d
}

func zzDataEq(a, b *Data) bool {
	if (a.Metadata == nil) != (b.Metadata == nil) {
		return false
	}
	if a.Metadata != nil {
		if a.Metadata.ChainID != b.Metadata.ChainID || a.Metadata.Height != b.Metadata.Height || a.Metadata.Time != b.Metadata.Time || !zzSameBytes(a.Metadata.LastDataHash, b.Metadata.LastDataHash) {
			return false
		}
	}
	if len(a.Txs) != len(b.Txs) {
		return false
	}
	for i := range a.Txs {
		if !bytes.Equal(a.Txs[i], b.Txs[i]) {
			return false
		}
	}
	return true
}

// ZZ_C12_data_roundtrip: Data with nil/empty/1..3 txs of 0..2 bytes, metadata
// nil or arbitrary: decode(encode(d)) == d, hash and DA commitment unchanged,
// and the commitment does not depend on the metadata.
func ZZ_C12_data_roundtrip() {
	d := zzData("")
	bz, err := d.MarshalBinary()
	zzsym.Assert(err == nil, "data-marshal-ok")
	var g Data
	err = g.UnmarshalBinary(bz)
	zzsym.Assert(err == nil, "data-unmarshal-ok")
	zzsym.Assert(zzDataEq(d, &g), "data-roundtrip-equal")
	zzsym.Assert(bytes.Equal(d.Hash(), g.Hash()), "data-hash-stable")
	zzsym.Assert(bytes.Equal(d.DACommitment(), g.DACommitment()), "data-commitment-stable")
	noMeta := &Data{Txs: d.Txs}
	zzsym.Assert(bytes.Equal(d.DACommitment(), noMeta.DACommitment()), "commitment-ignores-metadata")
	zzsym.Reach("data-roundtrip")
}

// ZZ_C12_commitment_depends_on_txs: two tx lists with equal commitment are
// equal lists (order and contents) -- modulo sha256 collisions.
func ZZ_C12_commitment_depends_on_txs() {
	a, b := &Data{}, &Data{}
	na, nb := zzsym.Pick("na", 3), zzsym.Pick("nb", 3)
	for i := 0; i < na; i++ {
		a.Txs = append(a.Txs, Tx(zzsym.Bytes("ta", zzC12TxBytes)))
	}
	for i := 0; i < nb; i++ {
		b.Txs = append(b.Txs, Tx(zzsym.Bytes("tb", zzC12TxBytes)))
	}
	if bytes.Equal(a.DACommitment(), b.DACommitment()) {
		zzsym.Reach("equal-commitments")
		zzsym.Assert(zzDataEq(a, b), "equal-commitment-implies-equal-txs")
	} else {
		zzsym.Reach("different-commitments")
		zzsym.Assert(!zzDataEq(a, b), "equal-txs-imply-equal-commitment")
	}
}

// ZZ_C12_state_roundtrip: State through ToProto/FromProto (block store path).
// LastBlockTime is drawn from four concrete instants: the real conversion
// divides by 1e9, which no installed solver decides symbolically.
func ZZ_C12_state_roundtrip() {
	times := []time.Time{time.Unix(0, 0), time.Unix(0, 1), time.Unix(1700000000, 999999999), time.Unix(0, 1<<62)}
	s := State{
		Version:         Version{Block: zzsym.U64("vb"), App: zzsym.U64("va")},
		ChainID:         zzChainID("chain"),
		InitialHeight:   zzsym.U64("ih"),
		LastBlockHeight: zzsym.U64("lbh"),
		LastBlockTime:   times[zzsym.Pick("t", 4)],
		DAHeight:        zzsym.U64("dah"),
		LastResultsHash: zzBytesMode("lrh", zzsym.Pick("lrhm", 4)),
		AppHash:         zzBytesMode("ah", zzsym.Pick("ahm", 4)),
	}
	p, err := s.ToProto()
	zzsym.Assert(err == nil, "state-toproto-ok")
	var g State
	zzsym.Assert(g.FromProto(p) == nil, "state-fromproto-ok")
	ok := g.Version == s.Version && g.ChainID == s.ChainID && g.InitialHeight == s.InitialHeight &&
		g.LastBlockHeight == s.LastBlockHeight && g.DAHeight == s.DAHeight && g.LastBlockTime.Equal(s.LastBlockTime) &&
		zzSameBytes(g.LastResultsHash, s.LastResultsHash) && zzSameBytes(g.AppHash, s.AppHash)
	zzsym.Assert(ok, "state-roundtrip-equal")
	zzsym.Reach("state-roundtrip")
}

// ZZ_C12_signed_roundtrip: SignedHeader and SignedData (block store, DA blob and
// P2P path) with a real key, an arbitrary signer address (derived from the key
// or any other bytes) and an arbitrary signature: decode(encode(x)) == x,
// same bytes when re-encoded, signature verdict unchanged.
func ZZ_C12_signed_roundtrip() {
	_, pub, err := crypto.GenerateEd25519Key(crand.Reader)
	if err != nil {
		panic(err)
	}
	var addr []byte
	switch zzsym.Pick("addr", 4) {
	case 0:
		addr = KeyAddress(pub)
	case 1:
		addr = zzsym.BytesN("addr20", 20)
	case 2:
		addr = zzsym.BytesN("addr1", 1)
	case 3:
		addr = []byte{}
	}
	sig := Signature(zzBytesMode("sig", 1+zzsym.Pick("sigmode", 3)))
	h := Header{BaseHeader: BaseHeader{Height: zzsym.U64("height"), Time: zzsym.U64("time"), ChainID: "chain-1"},
		DataHash: zzsym.BytesN("dh", 2), AppHash: zzsym.BytesN("ah", 2), ProposerAddress: addr}
	sh := &SignedHeader{Header: h, Signature: sig, Signer: Signer{PubKey: pub, Address: addr}}
	bz, err := sh.MarshalBinary()
	zzsym.Assert(err == nil, "signed-header-marshal-ok")
	var g SignedHeader
	zzsym.Assert(g.UnmarshalBinary(bz) == nil, "signed-header-unmarshal-ok")
	zzsym.Assert(zzHeaderEq(&sh.Header, &g.Header), "signed-header-roundtrip-header")
	zzsym.Assert(bytes.Equal(g.Signature, sh.Signature), "signed-header-roundtrip-signature")
	zzsym.Assert(g.Signer.PubKey != nil && g.Signer.PubKey.Equals(pub), "signed-header-roundtrip-key")
	zzsym.Assert(zzSameBytes(g.Signer.Address, addr), "signed-header-roundtrip-address")
	bz2, _ := g.MarshalBinary()
	zzsym.Assert(bytes.Equal(bz, bz2), "signed-header-reencode-identical")
	zzsym.Assert((sh.ValidateBasic() == nil) == (g.ValidateBasic() == nil), "signed-header-validity-unchanged")

	sd := &SignedData{Data: Data{Txs: Txs{Tx(zzsym.BytesN("tx", 1))}}, Signature: sig, Signer: Signer{PubKey: pub, Address: addr}}
	dz, err := sd.MarshalBinary()
	zzsym.Assert(err == nil, "signed-data-marshal-ok")
	var gd SignedData
	zzsym.Assert(gd.UnmarshalBinary(dz) == nil, "signed-data-unmarshal-ok")
	zzsym.Assert(zzDataEq(&sd.Data, &gd.Data), "signed-data-roundtrip-data")
	zzsym.Assert(bytes.Equal(gd.Signature, sd.Signature), "signed-data-roundtrip-signature")
	zzsym.Assert(gd.Signer.PubKey != nil && gd.Signer.PubKey.Equals(pub) && zzSameBytes(gd.Signer.Address, addr), "signed-data-roundtrip-signer")
	zzsym.Reach("signed-roundtrip")
}

// ---- group 3: decoder totality on arbitrary decoded messages ---------------

func zzPBHeader(pfx string) *pb.Header {
	if zzsym.Bool(pfx + "nil") {
		return nil
	}
	h := &pb.Header{Height: zzsym.U64(pfx + "h"), Time: zzsym.U64(pfx + "t"), ChainId: zzChainID(pfx + "c")}
	if zzsym.Bool(pfx + "hasv") {
		h.Version = &pb.Version{Block: zzsym.U64(pfx + "vb"), App: zzsym.U64(pfx + "va")}
	}
	m := zzsym.Pick(pfx+"m", 3)
	h.LastHeaderHash = zzBytesMode(pfx+"1", m)
	h.LastCommitHash = zzBytesMode(pfx+"2", m)
	h.DataHash = zzBytesMode(pfx+"3", m)
	h.ConsensusHash = zzBytesMode(pfx+"4", m)
	h.AppHash = zzBytesMode(pfx+"5", m)
	h.LastResultsHash = zzBytesMode(pfx+"6", m)
	h.ProposerAddress = zzBytesMode(pfx+"7", m)
	h.ValidatorHash = zzBytesMode(pfx+"8", m)
	return h
}

// ZZ_C12_header_fromproto_total: FromProto on any decoded header message never
// panics; on success the value re-encodes and decodes to itself.
func ZZ_C12_header_fromproto_total() {
	p := zzPBHeader("")
	var h Header
	if err := h.FromProto(p); err != nil {
		zzsym.Reach("fromproto-error")
		return
	}
	zzsym.Reach("fromproto-ok")
	bz, err := h.MarshalBinary()
	zzsym.Assert(err == nil, "total-marshal-ok")
	var g Header
	zzsym.Assert(g.UnmarshalBinary(bz) == nil, "total-unmarshal-ok")
	zzsym.Assert(zzHeaderEq(&h, &g), "total-fixpoint")
}

// ZZ_C12_data_fromproto_total: same for Data / Metadata.
func ZZ_C12_data_fromproto_total() {
	var p *pb.Data
	if !zzsym.Bool("nil") {
		p = &pb.Data{}
		if zzsym.Bool("hasmeta") {
			p.Metadata = &pb.Metadata{ChainId: zzChainID("c"), Height: zzsym.U64("h"), Time: zzsym.U64("t"), LastDataHash: zzBytesMode("ldh", zzsym.Pick("ldhm", 3))}
		}
		switch n := zzsym.Pick("ntx", 4); n {
		case 0:
		case 1:
			p.Txs = [][]byte{}
		default:
			for i := 1; i < n; i++ {
				p.Txs = append(p.Txs, zzBytesMode("tx", zzsym.Pick("txm", 3)))
			}
		}
	}
	var d Data
	if err := d.FromProto(p); err != nil {
		zzsym.Reach("fromproto-error")
		return
	}
	zzsym.Reach("fromproto-ok")
	bz, err := d.MarshalBinary()
	zzsym.Assert(err == nil, "dtotal-marshal-ok")
	var g Data
	zzsym.Assert(g.UnmarshalBinary(bz) == nil, "dtotal-unmarshal-ok")
	zzsym.Assert(zzDataEq(&d, &g), "dtotal-fixpoint")
}

// ---- group 4: pinned wire format (reference encoder frozen from the pinned tree)

func zzRefVarint(x uint64) []byte {
	if zzsym.Symbolic() {
		// the engine's wire model writes integer payloads as a fixed group
		return []byte{0x80, 0x80, byte(x >> 56), byte(x >> 48), byte(x >> 40), byte(x >> 32), byte(x >> 24), byte(x >> 16), byte(x >> 8), byte(x)}
	}
	var out []byte
	for x >= 0x80 {
		out = append(out, byte(x)|0x80)
		x >>= 7
	}
	return append(out, byte(x))
}

func zzRefLen(n int) []byte {
	var out []byte
	x := uint64(n)
	for x >= 0x80 {
		out = append(out, byte(x)|0x80)
		x >>= 7
	}
	return append(out, byte(x))
}

func zzRefUint(out []byte, num int, x uint64) []byte {
	if x == 0 {
		return out
	}
	out = append(out, byte(num<<3|0))
	return append(out, zzRefVarint(x)...)
}

func zzRefBytes(out []byte, num int, b []byte, keepEmpty bool) []byte {
	if len(b) == 0 && !keepEmpty {
		return out
	}
	out = append(out, byte(num<<3|2))
	out = append(out, zzRefLen(len(b))...)
	return append(out, b...)
}

// pinned: Header = {1:Version{1:block,2:app} 2:height 3:time 4:last_header_hash
// 5:last_commit_hash 6:data_hash 7:consensus_hash 8:app_hash 9:last_results_hash
// 10:proposer_address 11:validator_hash 12:chain_id}
func zzRefHeader(h *Header) []byte {
	var v []byte
	v = zzRefUint(v, 1, h.Version.Block)
	v = zzRefUint(v, 2, h.Version.App)
	var out []byte
	out = zzRefBytes(out, 1, v, true)
	out = zzRefUint(out, 2, h.BaseHeader.Height)
	out = zzRefUint(out, 3, h.BaseHeader.Time)
	out = zzRefBytes(out, 4, h.LastHeaderHash, false)
	out = zzRefBytes(out, 5, h.LastCommitHash, false)
	out = zzRefBytes(out, 6, h.DataHash, false)
	out = zzRefBytes(out, 7, h.ConsensusHash, false)
	out = zzRefBytes(out, 8, h.AppHash, false)
	out = zzRefBytes(out, 9, h.LastResultsHash, false)
	out = zzRefBytes(out, 10, h.ProposerAddress, false)
	out = zzRefBytes(out, 11, h.ValidatorHash, false)
	out = zzRefBytes(out, 12, []byte(h.BaseHeader.ChainID), false)
	return out
}

// pinned: Data = {1:Metadata{1:chain_id 2:height 3:time 4:last_data_hash} 2:txs*}
func zzRefData(d *Data, withMeta bool) []byte {
	var out []byte
	if withMeta && d.Metadata != nil {
		var m []byte
		m = zzRefBytes(m, 1, []byte(d.Metadata.ChainID), false)
		m = zzRefUint(m, 2, d.Metadata.Height)
		m = zzRefUint(m, 3, d.Metadata.Time)
		m = zzRefBytes(m, 4, d.Metadata.LastDataHash, false)
		out = zzRefBytes(out, 1, m, true)
	}
	for _, tx := range d.Txs {
		out = zzRefBytes(out, 2, tx, true)
	}
	return out
}

// ZZ_C12_header_pinned: bytes and hash of every header equal the frozen format.
func ZZ_C12_header_pinned() {
	h := zzHeader("", zzsym.Pick("mode", 5))
	bz, err := h.MarshalBinary()
	zzsym.Assert(err == nil, "pinned-header-marshal-ok")
	ref := zzRefHeader(&h)
	zzsym.Assert(bytes.Equal(bz, ref), "header-bytes-match-pinned-format")
	sum := sha256.Sum256(ref)
	zzsym.Assert(bytes.Equal(h.Hash(), sum[:]), "header-hash-matches-pinned-format")
	zzsym.ObserveBool("pinned", bytes.Equal(bz, ref))
	zzsym.Reach("header-pinned")
}

// ZZ_C12_data_pinned: Data bytes, Hash = sha256(0x00 || proto(data)) and
// DACommitment = sha256(0x00 || proto(data without metadata)).
func ZZ_C12_data_pinned() {
	d := zzData("")
	bz, err := d.MarshalBinary()
	zzsym.Assert(err == nil, "pinned-data-marshal-ok")
	ref := zzRefData(d, true)
	zzsym.Assert(bytes.Equal(bz, ref), "data-bytes-match-pinned-format")
	sum := sha256.Sum256(append([]byte{0}, ref...))
	zzsym.Assert(bytes.Equal(d.Hash(), sum[:]), "data-hash-matches-pinned-format")
	sumc := sha256.Sum256(append([]byte{0}, zzRefData(d, false)...))
	zzsym.Assert(bytes.Equal(d.DACommitment(), sumc[:]), "commitment-matches-pinned-format")
	zzsym.ObserveBool("pinned", bytes.Equal(bz, ref))
	zzsym.Reach("data-pinned")
}
