package block

var zzC13Preemptions = 3
