package block

import (
	"context"
	"time"

	"github.com/evstack/ev-node/internal/zzsym"
	"github.com/evstack/ev-node/types"
)

const zzPrompt = int64(time.Second) // "promptly": no uninterruptible wait longer than this

// after the stop request the activity may run at most this many interpreter
// steps (SSA instructions) before it returns: a loop that keeps spinning
// without blocking is reported, not counted as an exhausted budget
const zzC13StopSteps = 150000
const zzC13StopLabel = "stops-promptly-no-spin-after-stop"

// ZZ_C13_aggregation_start: the production loop is asked to stop before or
// right after it starts, with a genesis time anywhere from the past to one
// hour in the future and any block time: it returns without sleeping through
// the start-up delay.
func ZZ_C13_aggregation_start() {
	zzsym.SetClockNs(1 << 50)
	zzsym.FreezeClock()
	e := zzNewEnv(1)
	g := zzsym.I64("genesisOffset")
	zzsym.Assume(g >= -int64(10*time.Second) && g <= int64(time.Hour))
	e.gen.GenesisDAStartTime = zzsym.TimeOf(zzsym.NowNs() + g)
	fresh := zzsym.Bool("freshChain")
	st := types.State{ChainID: e.chainID, InitialHeight: 1, LastBlockTime: e.gen.GenesisDAStartTime}
	if !fresh {
		e.store.height = 3
		st.LastBlockHeight = 3
	}
	m := e.zzManager(st)
	m.config.Node.LazyMode = zzsym.Bool("lazy")
	bt := zzsym.I64("blockTime")
	zzsym.Assume(bt >= int64(time.Millisecond) && bt <= int64(time.Minute))
	m.config.Node.BlockTime.Duration = time.Duration(bt)
	m.publishBlock = func(ctx context.Context) error { return nil }
	zzsym.Region("start-up-delay-in-the-future", g+bt > zzPrompt)
	ctx, cancel := context.WithCancel(context.Background())
	cancel()
	errCh := make(chan error, 1)
	t0 := zzsym.NowNs()
	zzsym.StepDeadline(zzC13StopSteps, zzC13StopLabel)
	m.AggregationLoop(ctx, errCh)
	zzsym.StepDeadline(0, "")
	zzsym.Reach("returned")
	zzsym.Assert(zzsym.NowNs()-t0 <= zzPrompt, "stops-promptly-no-uninterruptible-start-up-sleep")
}

// ZZ_C13_submission_backoff: the header submission loop is stopped while it
// waits in the DA back-off (timed out / already in mempool answers give a
// wait of DA block time x mempool TTL): it returns at the stop instant.
func ZZ_C13_submission_backoff() {
	zzsym.SetClockNs(1 << 50)
	zzsym.FreezeClock()
	e, m, da, _ := zzC13Pending()
	// the first submission is answered 'timed out' or 'already in mempool' (long
	// back-off) or with a generic error (exponential back-off), later ones are accepted
	da.script = []zzDAAnswer{{kind: []int{2, 3, 6}[zzsym.Pick("answer", 3)]}}
	// the DA client either ignores a cancelled context or, like a network client, fails the call with it
	da.honourCtx = zzsym.Bool("daHonoursCtx")
	ctx, cancel := context.WithCancel(context.Background())
	t0 := zzsym.NowNs()
	stopAfter := zzsym.I64("stopAfter")
	zzsym.Assume(stopAfter >= 0 && stopAfter <= int64(10*time.Minute))
	var stoppedAt int64
	zzsym.At(t0+stopAfter, func() { stoppedAt = zzsym.NowNs(); cancel(); zzsym.StepDeadline(zzC13StopSteps, zzC13StopLabel) })
	if zzsym.Bool("dataLoop") {
		m.DataSubmissionLoop(ctx)
	} else {
		m.HeaderSubmissionLoop(ctx)
	}
	zzsym.StepDeadline(0, "")
	zzsym.Reach("returned")
	zzsym.Assert(stoppedAt != 0 && zzsym.NowNs()-stoppedAt <= zzPrompt, "stops-promptly-submission-loop")
	_ = e
}

func zzC13Pending() (*zzEnv, *Manager, *zzDA, uint64) {
	e := zzNewEnv(1)
	W := uint64(4)
	e.zzChain(W, 1, []bool{true})
	da := &zzDA{height: 5}
	e.da = da
	m := e.zzManager(types.State{ChainID: e.chainID, InitialHeight: 1, LastBlockHeight: W + 1})
	m.da = da
	m.pendingHeaders.base.lastHeight.Store(W)
	m.pendingData.base.lastHeight.Store(W)
	return e, m, da, W
}

// ZZ_C13_retrieve_full_channel: the DA scanner finds a genuine header (or
// data) while the hand-off channel to sync is full (sync is busy or already
// gone); the node is then asked to stop.  The scanner returns.
func ZZ_C13_retrieve_full_channel() {
	zzsym.SetClockNs(1 << 50)
	zzsym.FreezeClock()
	e := zzNewEnv(1)
	e.zzChain(4, 1, []bool{true})
	b := e.store.blocks[5]
	e.store.height = 4
	delete(e.store.blocks, 5)
	rda := &zzC13DA{}
	if zzsym.Bool("dataBlob") {
		rda.blob = e.zzDataBlob(b)
	} else {
		rda.blob = zzHeaderBlob(b.header)
	}
	m := e.zzManager(types.State{ChainID: e.chainID, InitialHeight: 1, LastBlockHeight: 4, DAHeight: 7})
	m.da = rda
	full := zzsym.Bool("channelsFull")
	zzsym.Region("hand-off-channel-full", full)
	if full {
		for len(m.headerInCh) < cap(m.headerInCh) {
			m.headerInCh <- NewHeaderEvent{}
		}
		for len(m.dataInCh) < cap(m.dataInCh) {
			m.dataInCh <- NewDataEvent{}
		}
	}
	ctx, cancel := context.WithCancel(context.Background())
	m.retrieveCh <- struct{}{}
	zzsym.OnIdle(func() { cancel(); zzsym.StepDeadline(zzC13StopSteps, zzC13StopLabel) })
	m.RetrieveLoop(ctx)
	zzsym.StepDeadline(0, "")
	zzsym.Reach("returned")
}

// ZZ_C13_error_channel_full: a loop that hits an unrecoverable error while
// another one has already reported one (the node's error channel holds one
// error and is read once): it still returns when the node stops.
func ZZ_C13_error_channel_full() {
	zzsym.SetClockNs(1 << 50)
	zzsym.FreezeClock()
	zzsym.FreezeTimers()
	e := zzNewEnv(1)
	e.zzChain(0, 1, []bool{false})
	m := e.zzManager(types.State{ChainID: e.chainID, InitialHeight: 1, LastBlockHeight: 1})
	errCh := make(chan error, 1)
	occupied := zzsym.Bool("anotherLoopFailedFirst")
	zzsym.Region("error-channel-already-full", occupied)
	if occupied {
		errCh <- zzErrInjected
	}
	ctx, cancel := context.WithCancel(context.Background())
	zzsym.OnIdle(func() { cancel(); zzsym.StepDeadline(zzC13StopSteps, zzC13StopLabel) })
	// block 1 is fully DA included but finalisation fails
	m.headerCache.SetDAIncluded(e.store.blocks[1].header.Hash().String(), 3)
	e.exec.failFin = true
	m.daIncluderCh <- struct{}{}
	m.DAIncluderLoop(ctx, errCh)
	zzsym.StepDeadline(0, "")
	zzsym.Reach("returned")
}

// ZZ_C13_reaper: the reaper loop returns at the stop instant whatever its interval.
func ZZ_C13_reaper() {
	zzsym.SetClockNs(1 << 50)
	zzsym.FreezeClock()
	e := zzNewEnv(1)
	iv := zzsym.I64("interval")
	zzsym.Assume(iv >= int64(time.Millisecond) && iv <= int64(time.Hour))
	r := NewReaper(context.Background(), e.exec, e.seq, e.chainID, time.Duration(iv), m0logger(), &zzSeen{m: map[string]bool{}})
	ctx, cancel := context.WithCancel(context.Background())
	t0 := zzsym.NowNs()
	stopAfter := zzsym.I64("stopAfter")
	// (at most three ticks before the stop, to bound the run)
	zzsym.Assume(stopAfter >= 0 && stopAfter <= int64(2*time.Hour) && stopAfter <= 3*iv)
	var stoppedAt int64
	zzsym.At(t0+stopAfter, func() { stoppedAt = zzsym.NowNs(); cancel(); zzsym.StepDeadline(zzC13StopSteps, zzC13StopLabel) })
	r.Start(ctx)
	zzsym.StepDeadline(0, "")
	zzsym.Reach("returned")
	zzsym.Assert(stoppedAt != 0 && zzsym.NowNs()-stoppedAt <= zzPrompt, "stops-promptly-reaper")
}

// zzSlowExec: an execution client whose mempool call only returns when its
// context ends (a remote client during an outage).
type zzSlowExec struct{ zzExec }

func (e *zzSlowExec) GetTxs(ctx context.Context) ([][]byte, error) {
	<-ctx.Done()
	return nil, ctx.Err()
}

// ZZ_C13_reaper_slow_executor: the reaper is inside a slow mempool call when
// the node stops (the node's run context is cancelled; the context the
// reaper was constructed with stays alive): it returns.
func ZZ_C13_reaper_slow_executor() {
	zzsym.SetClockNs(1 << 50)
	zzsym.FreezeClock()
	e := zzNewEnv(1)
	appCtx := context.Background()
	r := NewReaper(appCtx, &zzSlowExec{}, e.seq, e.chainID, time.Second, m0logger(), &zzSeen{m: map[string]bool{}})
	ctx, cancel := context.WithCancel(appCtx)
	t0 := zzsym.NowNs()
	stopAfter := zzsym.I64("stopAfter")
	zzsym.Assume(stopAfter >= int64(time.Second) && stopAfter <= int64(3*time.Second))
	var stoppedAt int64
	zzsym.At(t0+stopAfter, func() { stoppedAt = zzsym.NowNs(); cancel(); zzsym.StepDeadline(zzC13StopSteps, zzC13StopLabel) })
	r.Start(ctx)
	zzsym.StepDeadline(0, "")
	zzsym.Reach("returned")
	zzsym.Assert(stoppedAt != 0 && zzsym.NowNs()-stoppedAt <= zzPrompt, "stops-promptly-reaper-in-slow-call")
}
