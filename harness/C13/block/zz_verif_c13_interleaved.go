package block

import (
	"bytes"
	"context"

	"github.com/evstack/ev-node/internal/zzsym"
	"github.com/evstack/ev-node/types"
)

// ZZ_C13_interleaved: two of the sequencer's activities run concurrently on
// one Manager -- the production step with one body of the header (or data)
// submission loop, or a submission body with one wake-up of the DA includer,
// or the production step with the includer -- interleaved in every way at the
// granularity of durable store writes and DA submissions (at most
// zzC13Preemptions preemptions; lock waits are free).  Afterwards the
// guarantees of C01 (the step committed one valid block), C06 (only committed
// blocks offered, in order, watermarks sound and persisted) and C07 (the
// DA-included height is sound, monotone and persisted) hold.
func ZZ_C13_interleaved() {
	zzsym.FreezeClock()
	zzsym.FreezeTimers()
	const W = uint64(4)
	e := zzNewEnv(1)
	ne := []bool{zzsym.Bool("nonempty"), zzsym.Bool("nonempty")}
	e.zzChain(W, 2, ne)
	da := &zzDA{height: 7}
	e.da = da
	tip := e.store.blocks[W+2]
	st := types.State{ChainID: e.chainID, InitialHeight: 1, LastBlockHeight: W + 2, LastBlockTime: tip.header.Time(), AppHash: zzsym.BytesN("rootH", 32)}
	e.store.state, e.store.hasState = st, true
	m := e.zzManager(st)
	m.da = da
	m.pendingHeaders.base.lastHeight.Store(W)
	m.pendingData.base.lastHeight.Store(W)
	e.store.meta["last-submitted-header-height"] = zzLE(W)
	e.store.meta["last-submitted-data-height"] = zzLE(W)
	m.daIncludedHeight.Store(W)
	e.store.meta["d"] = zzLE(W)
	// earlier traffic: block W+1 may already be fully on the DA layer and marked
	pair := zzsym.Pick("pair", 5)
	firstMarked := pair >= 2 && zzsym.Bool("first-block-already-on-da")
	if firstMarked {
		sl := e.store.blocks[W+1]
		da.accepted = append(da.accepted, zzAccepted{zzHeaderBlob(sl.header), 6})
		m.headerCache.SetDAIncluded(sl.header.Hash().String(), 6)
		if ne[0] {
			m.dataCache.SetDAIncluded(sl.data.DACommitment().String(), 6)
		}
	}
	zzsym.Assume(!(ne[0] && ne[1] && bytes.Equal(e.store.blocks[W+1].data.Txs[0], e.store.blocks[W+2].data.Txs[0]))) // equal tx lists: C07-K1/K2
	e.seq.script = []zzSeqAnswer{{txs: [][]byte{zzsym.BytesN("txn", 1)}, ts: zzsym.TimeOf(int64(tip.header.BaseHeader.Time) + 1)}}
	ctx := context.Background()
	var errP error
	ranP, ranH, ranD := false, false, false
	prod := func() { ranP = true; errP = m.publishBlockInternal(ctx) }
	hsub := func() {
		ranH = true
		pend, err := m.pendingHeaders.getPendingHeaders(ctx)
		if err == nil && len(pend) > 0 {
			_ = m.submitHeadersToDA(ctx, pend)
		}
	}
	dsub := func() {
		ranD = true
		sds, err := m.createSignedDataToSubmit(ctx)
		if err == nil && len(sds) > 0 {
			_ = m.submitDataToDA(ctx, sds)
		}
	}
	inclErr := make(chan error, 4)
	incl := func() {
		c2, cancel := context.WithCancel(ctx)
		m.sendNonBlockingSignalToDAIncluderCh() // (a submitter may have signalled already)
		zzsym.OnIdle(cancel)
		m.DAIncluderLoop(c2, inclErr)
		cancel()
	}
	zzsym.SetPreemptionBound(zzC13Preemptions)
	switch pair {
	case 0:
		zzsym.Go(prod)
		zzsym.Go(hsub)
	case 1:
		zzsym.Go(prod)
		zzsym.Go(dsub)
	case 2:
		zzsym.Go(hsub)
		zzsym.Go(incl)
	case 3:
		zzsym.Go(dsub)
		zzsym.Go(incl)
	default:
		zzsym.Go(prod)
		zzsym.Go(incl)
	}
	zzsym.Join()
	zzsym.Reach("joined")
	H2 := e.store.height
	// C01: the production step committed exactly one block on the tip
	if ranP {
		zzsym.Assert(errP == nil && H2 == W+3, "interleaved-production-step-commits-one-block")
		sl := e.store.blocks[W+3]
		zzsym.Assert(sl != nil && e.zzVerifies(sl.header) && bytes.Equal(sl.header.LastHeaderHash, tip.header.Hash()), "interleaved-block-is-signed-and-linked")
		zzsym.Assert(e.store.state.LastBlockHeight == W+3 && m.lastState.LastBlockHeight == W+3, "interleaved-state-height-is-chain-height")
	} else {
		zzsym.Assert(H2 == W+2, "height-unchanged-without-production")
	}
	n := int(H2 - W)
	// C06: watermarks sound and persisted, only committed blocks offered, in order
	if ranH {
		zzCheckHeaderSubmission(e, m, da, W, n)
		zzsym.Assert(m.pendingHeaders.getLastSubmittedHeaderHeight() >= W+2, "interleaved-pending-headers-submitted")
	}
	if ranD {
		zzCheckDataSubmission(e, m, da, W, n)
		// one body: a non-empty block is submitted, an empty one behind it waits for the next body
		want := W + 2
		if ne[0] && !ne[1] {
			want = W + 1
		}
		zzsym.Assert(m.pendingData.getLastSubmittedDataHeight() >= want, "interleaved-pending-data-submitted")
	}
	// C07: the DA-included height is monotone, persisted, and only past blocks whose parts are on the DA layer
	D2 := m.GetDAIncludedHeight()
	zzsym.Assert(D2 >= W && D2 <= H2, "da-included-height-monotone-and-below-chain-height")
	zzsym.Assert(zzPersistedWM(e, "d") == D2, "reported-height-is-persisted")
	for h := W + 1; h <= D2; h++ {
		sl := e.store.blocks[h]
		_, okH := zzHeaderAccepted(e, da, h)
		zzsym.Assert(okH, "reported-height-has-header-on-da")
		if len(sl.data.Txs) > 0 {
			zzsym.Assert(zzDataAccepted(e, da, h) || (h == W+1 && firstMarked), "reported-height-has-its-data-on-da")
		}
	}
	zzsym.Assert(len(inclErr) == 0, "no-error-when-nothing-fails")
	zzsym.ObserveU64("da-included", D2-W)
}
