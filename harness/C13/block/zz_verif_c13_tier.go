package block

// preemptions per interleaving: quick 1, thorough 3
var zzC13Preemptions = 1
