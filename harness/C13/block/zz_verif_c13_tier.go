package block

// preemptions per interleaving: quick 2, thorough 3
var zzC13Preemptions = 2
