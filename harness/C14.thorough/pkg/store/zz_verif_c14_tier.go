package store

var zzThorough = true
