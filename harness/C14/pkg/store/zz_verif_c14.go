package store

import (
	"bytes"
	"context"
	crand "crypto/rand"
	"errors"

	ds "github.com/ipfs/go-datastore"
	dsq "github.com/ipfs/go-datastore/query"
	"github.com/libp2p/go-libp2p/core/crypto"

	"github.com/evstack/ev-node/internal/zzsym"
	"github.com/evstack/ev-node/types"
)

// zzKV: the ds.Batching contract the real DefaultStore is written against --
// a map from key to value, single Puts durable and atomic, a Batch applied
// atomically at Commit.  Durable writes are counted; at crashAt the write is
// lost and every later operation fails (the process is dead).
type zzKV struct {
	m       map[string][]byte
	writes  int
	crashAt int
	dead    bool
}

var zzErrCrash = errors.New("zz: crashed")

func zzNewKV() *zzKV { return &zzKV{m: map[string][]byte{}, crashAt: -1} }

func (k *zzKV) durable() bool {
	if k.dead {
		return false
	}
	if k.crashAt >= 0 && k.writes == k.crashAt {
		k.dead = true
		return false
	}
	k.writes++
	return true
}
func (k *zzKV) Get(ctx context.Context, key ds.Key) ([]byte, error) {
	if k.dead {
		return nil, zzErrCrash
	}
	v, ok := k.m[key.String()]
	if !ok {
		return nil, ds.ErrNotFound
	}
	return append([]byte(nil), v...), nil
}
func (k *zzKV) Has(ctx context.Context, key ds.Key) (bool, error) {
	_, ok := k.m[key.String()]
	return ok, nil
}
func (k *zzKV) GetSize(ctx context.Context, key ds.Key) (int, error) {
	v, ok := k.m[key.String()]
	if !ok {
		return -1, ds.ErrNotFound
	}
	return len(v), nil
}
func (k *zzKV) Query(ctx context.Context, q dsq.Query) (dsq.Results, error) {
	zzsym.Unsupported("zzKV.Query")
	return nil, nil
}
func (k *zzKV) Put(ctx context.Context, key ds.Key, value []byte) error {
	if !k.durable() {
		return zzErrCrash
	}
	k.m[key.String()] = append([]byte(nil), value...)
	return nil
}
func (k *zzKV) Delete(ctx context.Context, key ds.Key) error {
	if !k.durable() {
		return zzErrCrash
	}
	delete(k.m, key.String())
	return nil
}
func (k *zzKV) Sync(ctx context.Context, prefix ds.Key) error { return nil }
func (k *zzKV) Close() error                                  { return nil }
func (k *zzKV) Batch(ctx context.Context) (ds.Batch, error) {
	if k.dead {
		return nil, zzErrCrash
	}
	return &zzBatch{kv: k}, nil
}

type zzBatchOp struct {
	key string
	val []byte
	del bool
}
type zzBatch struct {
	kv  *zzKV
	ops []zzBatchOp
}

func (b *zzBatch) Put(ctx context.Context, key ds.Key, value []byte) error {
	b.ops = append(b.ops, zzBatchOp{key: key.String(), val: append([]byte(nil), value...)})
	return nil
}
func (b *zzBatch) Delete(ctx context.Context, key ds.Key) error {
	b.ops = append(b.ops, zzBatchOp{key: key.String(), del: true})
	return nil
}
func (b *zzBatch) Commit(ctx context.Context) error {
	if !b.kv.durable() {
		return zzErrCrash
	}
	for _, op := range b.ops {
		if op.del {
			delete(b.kv.m, op.key)
		} else {
			b.kv.m[op.key] = op.val
		}
	}
	return nil
}

// ---- reference model -------------------------------------------------------

type zzRefBlock struct {
	hash []byte
	time uint64
	app  []byte
	txs  [][]byte
	sig  []byte
}
type zzRef struct {
	height uint64
	blocks map[uint64]*zzRefBlock
	state  *types.State
	meta   map[string][]byte
}

var zzHeights = []uint64{1, 10, 1 << 40}
var zzMetaKeys = []string{"d", "l", "last-submitted-header-height", "rhb/1/h", "rhb/1/d"}

type zzKeys struct {
	pub  crypto.PubKey
	addr []byte
}

func zzMkKeys() zzKeys {
	_, pub, err := crypto.GenerateEd25519Key(crand.Reader)
	if err != nil {
		panic(err)
	}
	return zzKeys{pub: pub, addr: types.KeyAddress(pub)}
}

func zzMkBlock(k zzKeys, h uint64) (*types.SignedHeader, *types.Data, types.Signature) {
	hd := &types.SignedHeader{Header: types.Header{
		BaseHeader:      types.BaseHeader{ChainID: "zz", Height: h, Time: zzsym.U64("time")},
		AppHash:         zzsym.BytesN("app", 2),
		ProposerAddress: k.addr,
	}, Signer: types.Signer{PubKey: k.pub, Address: k.addr}}
	sig := types.Signature(zzsym.BytesN("sig", 2))
	hd.Signature = sig
	d := &types.Data{Metadata: &types.Metadata{ChainID: "zz", Height: h, Time: hd.BaseHeader.Time}}
	if zzsym.Bool("hastx") {
		d.Txs = types.Txs{types.Tx(zzsym.BytesN("tx", 1))}
	}
	return hd, d, sig
}

func zzRaw(t types.Txs) [][]byte {
	out := make([][]byte, len(t))
	for i := range t {
		out[i] = t[i]
	}
	return out
}

func zzTxEq(a types.Txs, b [][]byte) bool {
	if len(a) != len(b) {
		return false
	}
	for i := range a {
		if !bytes.Equal(a[i], b[i]) {
			return false
		}
	}
	return true
}

// zzApplyOp performs one arbitrary mutator on store s and on the reference.
// Returns false if the store reported an error (only possible after a crash).
func zzApplyOp(pfx string, k zzKeys, s Store, ref *zzRef) bool {
	ctx := context.Background()
	switch zzsym.Pick(pfx+"op", 4) {
	case 0: // SaveBlockData
		h := zzHeights[zzsym.Pick(pfx+"h", len(zzHeights))]
		hd, d, sig := zzMkBlock(k, h)
		if err := s.SaveBlockData(ctx, hd, d, &sig); err != nil {
			return false
		}
		ref.blocks[h] = &zzRefBlock{hash: hd.Hash(), time: hd.BaseHeader.Time, app: hd.AppHash, txs: zzRaw(d.Txs), sig: sig}
	case 1: // SetHeight (heights are not keys: fully symbolic)
		x := zzsym.U64(pfx + "newheight")
		if err := s.SetHeight(ctx, x); err != nil {
			return false
		}
		if x > ref.height {
			ref.height = x
		}
	case 2: // UpdateState
		st := types.State{ChainID: "zz", InitialHeight: zzsym.U64(pfx + "ih"), LastBlockHeight: zzsym.U64(pfx + "lbh"), DAHeight: zzsym.U64(pfx + "dah"), AppHash: zzsym.BytesN(pfx+"root", 2)}
		if err := s.UpdateState(ctx, st); err != nil {
			return false
		}
		ref.state = &st
	case 3: // SetMetadata
		key := zzMetaKeys[zzsym.Pick(pfx+"mk", len(zzMetaKeys))]
		v := zzsym.BytesN(pfx+"mv", 1)
		if err := s.SetMetadata(ctx, key, v); err != nil {
			return false
		}
		ref.meta[key] = v
	}
	return true
}

// zzCheckReads compares every reader with the reference model.
func zzCheckReads(s Store, ref *zzRef) {
	ctx := context.Background()
	h, err := s.Height(ctx)
	zzsym.Assert(err == nil && h == ref.height, "height-is-max-of-set-heights")
	for _, hh := range zzHeights {
		hd, d, err := s.GetBlockData(ctx, hh)
		rb := ref.blocks[hh]
		if rb == nil {
			zzsym.Assert(err != nil, "unsaved-height-has-no-block")
			_, err2 := s.GetSignature(ctx, hh)
			zzsym.Assert(err2 != nil, "unsaved-height-has-no-signature")
			continue
		}
		zzsym.Assert(err == nil, "saved-block-readable-by-height")
		if err != nil {
			continue
		}
		zzsym.Assert(hd.Height() == hh && hd.BaseHeader.Time == rb.time && bytes.Equal(hd.AppHash, rb.app) && bytes.Equal(hd.Hash(), rb.hash), "header-is-latest-saved")
		zzsym.Assert(zzTxEq(d.Txs, rb.txs), "data-is-latest-saved")
		sg, err := s.GetSignature(ctx, hh)
		zzsym.Assert(err == nil && sg != nil && bytes.Equal(*sg, rb.sig), "signature-is-latest-saved")
		hd2, _, err := s.GetBlockByHash(ctx, rb.hash)
		zzsym.Assert(err == nil && hd2 != nil && hd2.Height() == hh, "saved-block-readable-by-hash")
		sg2, err := s.GetSignatureByHash(ctx, rb.hash)
		zzsym.Assert(err == nil && sg2 != nil && bytes.Equal(*sg2, rb.sig), "signature-readable-by-hash")
	}
	st, err := s.GetState(ctx)
	if ref.state == nil {
		zzsym.Assert(err != nil, "no-state-before-first-update")
	} else {
		zzsym.Assert(err == nil && st.InitialHeight == ref.state.InitialHeight && st.LastBlockHeight == ref.state.LastBlockHeight && st.DAHeight == ref.state.DAHeight && bytes.Equal(st.AppHash, ref.state.AppHash) && st.ChainID == "zz", "state-is-last-written")
	}
	for _, mk := range zzMetaKeys {
		v, err := s.GetMetadata(ctx, mk)
		rv, ok := ref.meta[mk]
		if !ok {
			zzsym.Assert(err != nil, "unset-metadata-key-absent")
		} else {
			zzsym.Assert(err == nil && bytes.Equal(v, rv), "metadata-is-last-written")
		}
	}
}

// quick tier: histories of 1..2 mutators; thorough (VERIF_TIER=thorough): 1..3
func zzMaxOps() int {
	if zzThorough {
		return 3
	}
	return 2
}

func zzNewRef() *zzRef { return &zzRef{blocks: map[uint64]*zzRefBlock{}, meta: map[string][]byte{}} }

// ZZ_C14_history: every history of up to 3 mutators (arbitrary kinds and
// arguments), with an optional close/reopen between any two, reads back
// exactly like a height-indexed map: latest write wins per height, hash and
// metadata key, kinds never overwrite one another, the height only grows.
func ZZ_C14_history() {
	k := zzMkKeys()
	kv := zzNewKV()
	s := New(kv)
	ref := zzNewRef()
	n := 1 + zzsym.Pick("nops", zzMaxOps())
	for i := 0; i < n; i++ {
		// (reopening between operations is explored on the histories of up to 2 mutators)
		if i > 0 && n < 3 && zzsym.Bool("reopen") {
			s = New(kv)
		}
		switch i {
		case 0:
			zzApplyOp("o0.", k, s, ref)
		case 1:
			zzApplyOp("o1.", k, s, ref)
		default:
			zzApplyOp("o2.", k, s, ref)
		}
	}
	if n == 3 || zzsym.Bool("reopen-before-read") {
		s = New(kv)
	}
	zzsym.Reach("history-done")
	zzCheckReads(s, ref)
}

// ZZ_C14_crash: a crash at any durable write of any 2-op history, then
// reopen: every operation that returned nil is fully visible, the crashed
// one is visible entirely or not at all (a block never half-saved).
func ZZ_C14_crash() {
	k := zzMkKeys()
	kv := zzNewKV()
	kv.crashAt = zzsym.Pick("crashAt", 3)
	s := New(kv)
	ref := zzNewRef()
	ok := zzApplyOp("o0.", k, s, ref)
	var pre zzRef
	if ok {
		pre = *ref
		pre.blocks = map[uint64]*zzRefBlock{}
		for h, b := range ref.blocks {
			pre.blocks[h] = b
		}
		pre.meta = map[string][]byte{}
		for mk, v := range ref.meta {
			pre.meta[mk] = v
		}
		ok = zzApplyOp("o1.", k, s, ref)
	}
	// restart on the durable image
	kv2 := &zzKV{m: kv.m, crashAt: -1}
	s2 := New(kv2)
	if ok {
		zzsym.Reach("no-crash")
		zzCheckReads(s2, ref)
		return
	}
	zzsym.Reach("crashed")
	// the failed operation left no trace: state equals the reference before it
	if len(pre.blocks) == 0 && pre.meta == nil {
		zzCheckReads(s2, zzNewRef())
	} else {
		zzCheckReads(s2, &pre)
	}
}
