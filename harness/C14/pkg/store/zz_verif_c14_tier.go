package store

// zzThorough is switched by the check script (sed on the overlay copy is avoided:
// the thorough tier loads harness/C14.thorough/ on top of this directory).
var zzThorough = false
