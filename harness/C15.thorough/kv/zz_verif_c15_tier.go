package executor

var zzC15BothImages = true
