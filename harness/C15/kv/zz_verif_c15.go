package executor

import (
	"bytes"
	"context"
	"time"

	ds "github.com/ipfs/go-datastore"
	"github.com/ipfs/go-datastore/query"

	"github.com/evstack/ev-node/apps/testapp/internal/zzsym"
)

// zzKV: durable map with atomic batches; Query returns the keys in an order
// chosen by the datastore (reverse insertion order here -- the code sorts).
type zzKV struct {
	keys []string
	vals [][]byte
}

func (k *zzKV) find(key string) int {
	for i, x := range k.keys {
		if x == key {
			return i
		}
	}
	return -1
}
func (k *zzKV) put(key string, v []byte) {
	if i := k.find(key); i >= 0 {
		k.vals[i] = append([]byte(nil), v...)
		return
	}
	k.keys = append(k.keys, key)
	k.vals = append(k.vals, append([]byte(nil), v...))
}
func (k *zzKV) Get(ctx context.Context, key ds.Key) ([]byte, error) {
	if i := k.find(key.String()); i >= 0 {
		return append([]byte(nil), k.vals[i]...), nil
	}
	return nil, ds.ErrNotFound
}
func (k *zzKV) Has(ctx context.Context, key ds.Key) (bool, error) {
	return k.find(key.String()) >= 0, nil
}
func (k *zzKV) GetSize(ctx context.Context, key ds.Key) (int, error) { return 0, nil }
func (k *zzKV) Put(ctx context.Context, key ds.Key, v []byte) error {
	k.put(key.String(), v)
	return nil
}
func (k *zzKV) Delete(ctx context.Context, key ds.Key) error { return nil }
func (k *zzKV) Sync(ctx context.Context, p ds.Key) error     { return nil }
func (k *zzKV) Close() error                                 { return nil }

type zzBatch struct {
	kv   *zzKV
	keys []string
	vals [][]byte
}

func (b *zzBatch) Put(ctx context.Context, key ds.Key, v []byte) error {
	b.keys = append(b.keys, key.String())
	b.vals = append(b.vals, append([]byte(nil), v...))
	return nil
}
func (b *zzBatch) Delete(ctx context.Context, key ds.Key) error { return nil }
func (b *zzBatch) Commit(ctx context.Context) error {
	for i := range b.keys {
		b.kv.put(b.keys[i], b.vals[i])
	}
	return nil
}
func (k *zzKV) Batch(ctx context.Context) (ds.Batch, error) { return &zzBatch{kv: k}, nil }

type zzResults struct {
	q  query.Query
	ch chan query.Result
}

func (r *zzResults) Query() query.Query        { return r.q }
func (r *zzResults) Next() <-chan query.Result { return r.ch }
func (r *zzResults) NextSync() (query.Result, bool) {
	v, ok := <-r.ch
	return v, ok
}
func (r *zzResults) Rest() ([]query.Entry, error) { return nil, nil }
func (r *zzResults) Close() error                 { return nil }
func (r *zzResults) Done() <-chan struct{}        { return nil }

func (k *zzKV) Query(ctx context.Context, q query.Query) (query.Results, error) {
	ch := make(chan query.Result, 16)
	for i := len(k.keys) - 1; i >= 0; i-- {
		ch <- query.Result{Entry: query.Entry{Key: k.keys[i]}}
	}
	close(ch)
	return &zzResults{q: q, ch: ch}, nil
}

func (k *zzKV) clone() *zzKV {
	c := &zzKV{}
	for i := range k.keys {
		c.put(k.keys[i], k.vals[i])
	}
	return c
}

var zzTxs = []string{"a=1", "a=2", "b=1", " c = 3 ", "nokv", "=x", "/genesis/initialized=1", "finalizedHeight=9"}

// first block: 1..2 transactions from the first five menu entries; second
// block: one transaction from the whole menu
func zzBlock(pfx string, h uint64) [][]byte {
	if h > 1 {
		return [][]byte{[]byte(zzTxs[zzsym.Pick(pfx+"tx2", len(zzTxs))])}
	}
	n := 1 + zzsym.Pick(pfx+"n", 2)
	var out [][]byte
	for i := 0; i < n; i++ {
		out = append(out, []byte(zzTxs[zzsym.Pick(pfx+"tx", 5)]))
	}
	return out
}

// ZZ_C15_two_instances: two executors start from the same image and execute
// the same two blocks (1..2 transactions each from a menu with well formed,
// padded, malformed, empty-key and reserved-key transactions).  Instance B is
// additionally finalised, fed mempool transactions, re-initialised, reopened
// and made to re-execute the last block at arbitrary positions.  Every state
// root B returns equals the one A returns.
func ZZ_C15_two_instances() {
	ctx := context.Background()
	img := &zzKV{}
	if zzsym.Bool("preexisting-key") {
		img.put("/z", []byte("0"))
	}
	A := &KVExecutor{db: img.clone(), txChan: make(chan []byte, 8)}
	B := &KVExecutor{db: img.clone(), txChan: make(chan []byte, 8)}
	gA, _, errA := A.InitChain(ctx, time.Unix(0, 0), 1, "c")
	gB, _, errB := B.InitChain(ctx, time.Unix(0, 0), 1, "c")
	zzsym.Assert(errA == nil && errB == nil && bytes.Equal(gA, gB), "same-genesis-root")
	prevA, prevB := gA, gB
	finalized := false
	var lastBlock [][]byte
	for h := uint64(1); h <= 2; h++ {
		blk := zzBlock("b.", h)
		// B's extra activity before executing this block
		switch zzsym.Pick("extra", 6) {
		case 1:
			if h > 1 {
				zzsym.Assert(B.SetFinal(ctx, h-1) == nil, "set-final-ok")
				finalized = true
			}
		case 2:
			B.InjectTx([]byte("m=1"))
			_, _ = B.GetTxs(ctx)
		case 3:
			g2, _, err := B.InitChain(ctx, time.Unix(0, 0), 1, "c")
			zzsym.Assert(err == nil && bytes.Equal(g2, gB), "init-chain-idempotent")
		case 4:
			B = &KVExecutor{db: B.db, txChan: make(chan []byte, 8)} // reopen
		case 5:
			if lastBlock != nil {
				r, _, err := B.ExecuteTxs(ctx, lastBlock, h-1, time.Unix(0, 0), prevB)
				zzsym.Assert(err == nil && bytes.Equal(r, prevB), "re-executing-a-block-is-harmless")
			}
		}
		zzsym.Region("finalized-before-executing", finalized)
		before := len(A.db.(*zzKV).keys)
		rA, _, eA := A.ExecuteTxs(ctx, blk, h, time.Unix(0, 0), prevA)
		rB, _, eB := B.ExecuteTxs(ctx, blk, h, time.Unix(0, 0), prevB)
		zzsym.Assert((eA == nil) == (eB == nil), "both-instances-accept-or-reject-the-block")
		if eA != nil {
			zzsym.Reach("block-rejected")
			zzsym.Assert(len(A.db.(*zzKV).keys) == before, "rejected-block-changes-nothing")
			r2, _, e2 := A.ExecuteTxs(ctx, nil, h, time.Unix(0, 0), prevA)
			zzsym.Assert(e2 == nil && bytes.Equal(r2, prevA), "rejected-block-leaves-the-root-unchanged")
			continue
		}
		zzsym.Reach("block-executed")
		zzsym.Assert(bytes.Equal(rA, rB), "state-root-depends-only-on-executed-transactions")
		prevA, prevB = rA, rB
		lastBlock = blk
	}
}

// ZZ_C15_history: instance A executes a sequence of three ExecuteTxs calls:
// block 1, block 2, and then either a new block 3 or a replay of block 1 or
// block 2 (a node that re-executes blocks it already has).  Instance B
// executes exactly the same calls but is driven independently in between:
// it is finalised at height 1, 2 or 3 before any one of the calls (also ahead
// of execution) or never, and once fed mempool transactions, re-initialised
// or reopened before any one of the calls.  Every state root B returns is the
// one A returns, and both accept or reject the same calls.
func ZZ_C15_history() {
	ctx := context.Background()
	// the iteration order of Go maps is unspecified: every order is explored
	zzsym.NondetMapOrder(true)
	img := &zzKV{}
	if !zzC15BothImages || zzsym.Bool("preexisting-key") {
		img.put("/z", []byte("0")) // quick: always a pre-existing key (the empty image is covered by ZZ_C15_two_instances)
	}
	A := &KVExecutor{db: img.clone(), txChan: make(chan []byte, 8)}
	B := &KVExecutor{db: img.clone(), txChan: make(chan []byte, 8)}
	gA, _, errA := A.InitChain(ctx, time.Unix(0, 0), 1, "c")
	gB, _, errB := B.InitChain(ctx, time.Unix(0, 0), 1, "c")
	zzsym.Assert(errA == nil && errB == nil && bytes.Equal(gA, gB), "same-genesis-root")
	// the calls
	// ("a", "/a" and "a/" are spellings of one key)
	menu1 := []string{"a=1", "/a=2", "b=1", "a/=3", " c = 3 ", "nokv"}
	var b1 [][]byte
	if zzsym.Bool("b1.two") {
		b1 = [][]byte{[]byte(menu1[zzsym.Pick("b1.tx", 4)]), []byte(menu1[zzsym.Pick("b1.tx", 4)])}
	} else {
		b1 = [][]byte{[]byte(menu1[zzsym.Pick("b1.tx", 6)])}
	}
	b2 := [][]byte{[]byte(zzTxs[zzsym.Pick("b2.tx", len(zzTxs))])}
	type call struct {
		h   uint64
		txs [][]byte
	}
	calls := []call{{1, b1}, {2, b2}}
	switch zzsym.Pick("third", 5) {
	case 0:
		calls = append(calls, call{1, b1})
	case 1:
		calls = append(calls, call{2, b2})
	case 2:
		calls = append(calls, call{3, [][]byte{[]byte("a=3")}})
	case 3:
		calls = append(calls, call{3, [][]byte{[]byte("b=2")}})
	default:
		calls = append(calls, call{3, [][]byte{[]byte("=x")}})
	}
	// B's independent driving
	finalAt, finalH := -1, uint64(0)
	switch zzsym.Pick("finalizeBeforeCall", 4) {
	case 1:
		finalAt = 0
	case 2:
		finalAt = 1
	case 3:
		finalAt = 2
	}
	if finalAt >= 0 {
		switch zzsym.Pick("finalizeHeight", 3) { // also ahead of execution
		case 0:
			finalH = 1
		case 1:
			finalH = 2
		case 2:
			finalH = 3
		}
	}
	otherAt, other := -1, 0
	switch zzsym.Pick("otherBeforeCall", 3) {
	case 1:
		otherAt = 1
	case 2:
		otherAt = 2
	}
	if otherAt >= 0 {
		switch zzsym.Pick("otherKind", 3) {
		case 1:
			other = 1
		case 2:
			other = 2
		}
	}
	zzsym.Region("finalized-before-executing", finalAt >= 0)
	prevA, prevB := gA, gB
	for i, c := range calls {
		if i == finalAt {
			zzsym.Assert(B.SetFinal(ctx, finalH) == nil, "set-final-ok")
		}
		if i == otherAt {
			switch other {
			case 0:
				B.InjectTx([]byte("m=1"))
				_, _ = B.GetTxs(ctx)
			case 1:
				g2, _, err := B.InitChain(ctx, time.Unix(0, 0), 1, "c")
				zzsym.Assert(err == nil && bytes.Equal(g2, gB), "init-chain-idempotent")
			case 2:
				B = &KVExecutor{db: B.db, txChan: make(chan []byte, 8)}
			}
		}
		rA, _, eA := A.ExecuteTxs(ctx, c.txs, c.h, time.Unix(0, 0), prevA)
		rB, _, eB := B.ExecuteTxs(ctx, c.txs, c.h, time.Unix(0, 0), prevB)
		zzsym.Assert((eA == nil) == (eB == nil), "both-instances-accept-or-reject-the-block")
		if eA != nil || eB != nil {
			zzsym.Reach("call-rejected")
			continue
		}
		zzsym.Assert(bytes.Equal(rA, rB), "state-root-depends-only-on-executed-transactions")
		prevA, prevB = rA, rB
	}
	zzsym.Reach("history-done")
}
