package executor

// history: quick starts from an image with one pre-existing key, thorough also from the empty image
var zzC15BothImages = false
