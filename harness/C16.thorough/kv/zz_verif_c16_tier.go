package executor

var (
	zzC16MaxBlobs  = 6
	zzC16BlobBytes = 4
)
