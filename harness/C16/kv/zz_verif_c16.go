package executor

import (
	"bytes"
	"context"
	"errors"

	logging "github.com/ipfs/go-log/v2"

	"github.com/evstack/ev-node/apps/testapp/internal/zzsym"
	"github.com/evstack/ev-node/core/da"
	proxy "github.com/evstack/ev-node/da/jsonrpc"
)

// ZZ_C16_size_filter: client-side size filtering of SubmitWithOptions against a
// short reference model.  Either the call is refused (then some blob is
// individually oversize, the error is ErrBlobSizeOverLimit and nothing was
// sent), or exactly the longest prefix whose cumulative size fits is sent, in
// order, it is non-empty for non-empty input, and the ids handed back number
// exactly the blobs sent.  (An earlier version of this oracle demanded an
// error whenever ANY blob is oversize, also behind the cut; the property does
// not say that -- false alarm, oracle corrected.)
func ZZ_C16_size_filter() {
	n := zzsym.Pick("n", zzC16MaxBlobs+1)
	blobs := make([]da.Blob, n)
	for i := range blobs {
		blobs[i] = zzsym.Bytes("b", zzC16BlobBytes)
	}
	max := zzsym.U64("max")
	var sent [][]byte
	calls := 0
	api := &proxy.API{Logger: logging.Logger("zz"), MaxBlobSize: max}
	api.Internal.SubmitWithOptions = func(_ context.Context, bs []da.Blob, _ float64, _ []byte, _ []byte) ([]da.ID, error) {
		calls++
		sent = bs
		ids := make([]da.ID, len(bs))
		for i := range ids {
			ids[i] = []byte{byte(i)}
		}
		return ids, nil
	}
	ids, err := api.SubmitWithOptions(context.Background(), blobs, 1.0, nil, nil)

	anyOver := false
	for _, b := range blobs {
		if uint64(len(b)) > max {
			anyOver = true
		}
	}
	if err != nil {
		// refusing is only justified by an individually oversize blob, must be
		// reported as ErrBlobSizeOverLimit, and nothing may have been sent
		zzsym.Reach("oversize")
		zzsym.Assert(anyOver, "error-only-when-a-blob-is-oversize")
		zzsym.Assert(errors.Is(err, da.ErrBlobSizeOverLimit), "oversize-gives-ErrBlobSizeOverLimit")
		zzsym.Assert(calls == 0, "oversize-sends-nothing")
		zzsym.Assert(len(ids) == 0, "oversize-returns-no-ids")
		return
	}
	k := 0
	var cum uint64
	for _, b := range blobs {
		if cum+uint64(len(b)) > max {
			break
		}
		cum += uint64(len(b))
		k++
	}
	zzsym.ObserveU64("k", uint64(k))
	if n == 0 {
		zzsym.Reach("empty-input")
		zzsym.Assert(err == nil && calls == 0 && len(ids) == 0, "empty-input-is-noop")
		return
	}
	zzsym.Reach("prefix")
	zzsym.Assert(err == nil, "prefix-no-error")
	zzsym.Assert(calls == 1, "prefix-one-rpc")
	zzsym.Assert(len(sent) == k, "prefix-length-is-longest-fit")
	zzsym.Assert(len(ids) == k, "ids-count-equals-sent")
	for i := 0; i < k && i < len(sent); i++ {
		zzsym.Assert(bytes.Equal(sent[i], blobs[i]), "prefix-in-order")
	}
}
