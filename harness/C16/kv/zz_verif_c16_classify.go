package executor

import (
	"bytes"
	"context"
	"errors"
	"fmt"
	"os"
	"time"

	logging "github.com/ipfs/go-log/v2"

	"github.com/evstack/ev-node/apps/testapp/internal/zzsym"
	"github.com/evstack/ev-node/core/da"
	proxy "github.com/evstack/ev-node/da/jsonrpc"
	"github.com/evstack/ev-node/types"
)

// zzBackDA: the backing DA layer: every call answers with a scripted outcome.
type zzBackDA struct {
	da.DA
	submitErr error
	idsErr    error
	getErr    error
	nblobs    int
	height    uint64
}

func (b *zzBackDA) ids(n int) []da.ID {
	out := make([]da.ID, n)
	for i := range out {
		id := make([]byte, 9)
		for j := 0; j < 8; j++ {
			id[j] = byte(b.height >> (8 * uint(j)))
		}
		id[8] = byte(i)
		out[i] = id
	}
	return out
}
func (b *zzBackDA) SubmitWithOptions(ctx context.Context, blobs []da.Blob, gp float64, ns []byte, opts []byte) ([]da.ID, error) {
	if b.submitErr != nil {
		return nil, b.submitErr
	}
	return b.ids(len(blobs)), nil
}
func (b *zzBackDA) Submit(ctx context.Context, blobs []da.Blob, gp float64, ns []byte) ([]da.ID, error) {
	return b.SubmitWithOptions(ctx, blobs, gp, ns, nil)
}
func (b *zzBackDA) GetIDs(ctx context.Context, h uint64, ns []byte) (*da.GetIDsResult, error) {
	if b.idsErr != nil {
		return nil, b.idsErr
	}
	return &da.GetIDsResult{IDs: b.ids(b.nblobs), Timestamp: time.Unix(1000, 0).UTC()}, nil
}
func (b *zzBackDA) Get(ctx context.Context, ids []da.ID, ns []byte) ([]da.Blob, error) {
	if b.getErr != nil {
		return nil, b.getErr
	}
	out := make([]da.Blob, len(ids))
	for i := range out {
		out[i] = []byte{0xb0, byte(i)}
	}
	return out, nil
}

// zzWire: what an error looks like after crossing the JSON-RPC wire (contract of
// go-jsonrpc as this repository configures it, checked against the real
// client/server pair by the native replay): a fresh error value with the same
// message text; the identity of the original (errors.Is) is gone.
func zzWire(err error) error {
	if err == nil {
		return nil
	}
	return errors.New(err.Error())
}

// zzProxied returns the client API in front of back.  Under the engine the wire
// is zzWire; in a native replay it is the real JSON-RPC server and client.
func zzProxied(back *zzBackDA) (da.DA, func()) {
	logger := logging.Logger("zz")
	if zzsym.Symbolic() {
		api := &proxy.API{Logger: logger, MaxBlobSize: 1 << 20, Namespace: []byte("ns")}
		api.Internal.SubmitWithOptions = func(ctx context.Context, bs []da.Blob, gp float64, ns []byte, o []byte) ([]da.ID, error) {
			r, err := back.SubmitWithOptions(ctx, bs, gp, ns, o)
			return r, zzWire(err)
		}
		api.Internal.Submit = func(ctx context.Context, bs []da.Blob, gp float64, ns []byte) ([]da.ID, error) {
			r, err := back.Submit(ctx, bs, gp, ns)
			return r, zzWire(err)
		}
		api.Internal.GetIDs = func(ctx context.Context, h uint64, ns []byte) (*da.GetIDsResult, error) {
			r, err := back.GetIDs(ctx, h, ns)
			return r, zzWire(err)
		}
		api.Internal.Get = func(ctx context.Context, ids []da.ID, ns []byte) ([]da.Blob, error) {
			r, err := back.Get(ctx, ids, ns)
			return r, zzWire(err)
		}
		return api, func() {}
	}
	// (a fresh port per replayed case: a stopped server may keep its port for a moment;
	// ports that are taken are skipped)
	var srv *proxy.Server
	var port string
	for try := 0; ; try++ {
		zzPort++
		port = fmt.Sprint(36000 + (zzPort*7+os.Getpid())%20000)
		srv = proxy.NewServer(logger, "127.0.0.1", port, back)
		if err := srv.Start(context.Background()); err == nil {
			break
		} else if try > 50 {
			panic(err)
		}
	}
	cl, err := proxy.NewClient(context.Background(), logger, "http://127.0.0.1:"+port, "", "6e73")
	if err != nil {
		panic(err)
	}
	return &cl.DA, func() { cl.Close(); _ = srv.Stop(context.Background()) }
}

var zzPort int

var zzDAErrors = []error{da.ErrBlobNotFound, da.ErrBlobSizeOverLimit, da.ErrTxTimedOut, da.ErrTxAlreadyInMempool, da.ErrTxIncorrectAccountSequence, da.ErrContextDeadline, da.ErrHeightFromFuture, da.ErrContextCanceled, context.Canceled, errors.New("backend failure")}

func zzPickErr(pfx string) (error, int) {
	k := zzsym.Pick(pfx+"err", len(zzDAErrors)+1)
	if k == 0 {
		return nil, 0
	}
	e := zzDAErrors[k-1]
	if zzsym.Bool(pfx + "wrapped") {
		e = fmt.Errorf("da backend: %w", e)
	}
	return e, k
}

// ZZ_C16_submit_classification: the node's submission helper classifies the
// outcome of a submission identically for a direct and a proxied instance of
// the same backing DA layer, for every error the DA interface defines (plain
// or wrapped), a generic failure and success with 0..2 blobs.
func ZZ_C16_submit_classification() {
	back := &zzBackDA{height: 7}
	var kind int
	back.submitErr, kind = zzPickErr("s.")
	n := zzsym.Pick("nblobs", 3)
	// (an empty submission is answered by the client without a call: see ZZ_C16_size_filter)
	zzsym.Assume(n > 0 || back.submitErr == nil)
	blobs := make([][]byte, n)
	for i := range blobs {
		blobs[i] = []byte{byte(i), 1}
	}
	zzsym.Region("timed-out", kind == 3)
	zzsym.Region("already-in-mempool", kind == 4)
	zzsym.Region("incorrect-account-sequence", kind == 5)
	zzsym.Region("too-big-reported-by-the-backend", kind == 2)
	zzsym.Region("context-deadline", kind == 6)
	logger := logging.Logger("zz")
	ctx := context.Background()
	direct := types.SubmitWithHelpers(ctx, back, logger, blobs, 1.0, nil)
	prox, stop := zzProxied(back)
	defer stop()
	viaProxy := types.SubmitWithHelpers(ctx, prox, logger, blobs, 1.0, nil)
	zzsym.ObserveU64("direct-code", uint64(direct.Code))
	zzsym.ObserveU64("proxied-code", uint64(viaProxy.Code))
	zzsym.Assert(direct.Code == viaProxy.Code, "submission-outcome-classified-identically")
	zzsym.Assert(direct.SubmittedCount == viaProxy.SubmittedCount && len(direct.IDs) == len(viaProxy.IDs), "same-number-of-blobs-reported-as-submitted")
	for i := range direct.IDs {
		if i < len(viaProxy.IDs) {
			zzsym.Assert(bytes.Equal(direct.IDs[i], viaProxy.IDs[i]), "same-ids")
		}
	}
}

// ZZ_C16_retrieve_classification: the same for retrieval: listing and fetching
// outcomes ('nothing at this height', 'from the future', failures,
// cancellation, 0..2 blobs) are classified identically and the same ids and
// blobs come back.
func ZZ_C16_retrieve_classification() {
	back := &zzBackDA{height: 9}
	back.idsErr, _ = zzPickErr("i.")
	back.getErr, _ = zzPickErr("g.")
	back.nblobs = zzsym.Pick("nblobs", 3)
	logger := logging.Logger("zz")
	ctx := context.Background()
	direct := types.RetrieveWithHelpers(ctx, back, logger, 9, []byte("ns"))
	prox, stop := zzProxied(back)
	defer stop()
	viaProxy := types.RetrieveWithHelpers(ctx, prox, logger, 9, []byte("ns"))
	zzsym.ObserveU64("direct-code", uint64(direct.Code))
	zzsym.ObserveU64("proxied-code", uint64(viaProxy.Code))
	zzsym.Assert(direct.Code == viaProxy.Code, "retrieval-outcome-classified-identically")
	zzsym.Assert(len(direct.IDs) == len(viaProxy.IDs) && len(direct.Data) == len(viaProxy.Data), "same-number-of-ids-and-blobs")
	for i := range direct.Data {
		if i < len(viaProxy.Data) {
			zzsym.Assert(bytes.Equal(direct.Data[i], viaProxy.Data[i]), "same-blobs")
		}
	}
}
