package executor

// size filter: quick 0..4 blobs of 0..3 bytes, thorough 0..6 blobs of 0..4 bytes
var (
	zzC16MaxBlobs  = 4
	zzC16BlobBytes = 3
)
