package block

// thorough: two notifications instead of one (wider settings -- a third idle interval, a longer
// horizon, arbitrary durations for 3 productions -- were tried: they do not finish in 75 min)
var (
	zzC17SymbolicProductions = 2
	zzC17Notifications       = 2
	zzC17Intervals           = 2
	zzC17Horizon             = int64(60)
)
