package block

var (
	zzC17SymbolicProductions = 3
	zzC17Notifications       = 2
	zzC17Intervals           = 3
	zzC17Horizon             = int64(90)
)
