package block

// thorough: a third idle interval (40 units).  Wider settings were tried and do not finish
// within an hour on 16 cores: two notifications (60+ min), a horizon of 75..90 units with
// three intervals (65+ min), arbitrary durations for 3 productions (90+ min).
var (
	zzC17SymbolicProductions = 2
	zzC17Notifications       = 1
	zzC17Intervals           = 3
	zzC17Horizon             = int64(60)
)
