package block

// thorough: two notifications, three idle intervals, longer horizon (arbitrary durations for 3
// productions was tried as well: does not finish in 90 min)
var (
	zzC17SymbolicProductions = 2
	zzC17Notifications       = 2
	zzC17Intervals           = 3
	zzC17Horizon             = int64(75)
)
