package block

import (
	"context"
	"time"

	"github.com/evstack/ev-node/internal/zzsym"
	"github.com/evstack/ev-node/types"
)

// zzUnit: one abstract time unit.  Under the engine time is symbolic and a
// unit is a millisecond; in a native replay a unit is 20 ms of real time.
func zzUnit() time.Duration {
	if zzsym.Symbolic() {
		return time.Millisecond // (getRemainingSleep's floor is one millisecond)
	}
	return 20 * time.Millisecond
}

type zzProd struct{ start, end int64 }

// zzLazyRun runs the real aggregation loop (lazy or normal mode) from its
// start with block interval BT and idle interval LI (units), up to two
// notifications at arbitrary instants n1 <= n2 within the horizon, and an
// arbitrary production duration for each of the first four productions; the
// loop is stopped at the horizon.  Returns productions and notification times
// relative to the loop start.
func zzLazyRun(lazy bool, bt, li int64, horizon int64) ([]zzProd, []int64, int64) {
	u := zzUnit()
	zzsym.FreezeClock()
	zzsym.SetClockNs(1 << 40) // the engine's clock starts at a fixed instant; time only passes by waiting
	e := zzNewEnv(1)
	m := e.zzManager(types.State{ChainID: e.chainID, InitialHeight: 1})
	m.config.Node.LazyMode = lazy
	m.config.Node.BlockTime.Duration = time.Duration(bt) * u
	m.config.Node.LazyBlockInterval.Duration = time.Duration(li) * u
	var prods []zzProd
	t0 := zzsym.NowNs()
	// production durations: shorter than, equal to and longer than the block
	// interval (and longer than two), for the first productions; later ones are instantaneous
	grid := []int64{0, 4, 10, 14, 23}
	var durs []int64
	for i := 0; i < zzC17SymbolicProductions; i++ {
		durs = append(durs, grid[zzsym.Pick("dur", len(grid))])
	}
	m.publishBlock = func(ctx context.Context) error {
		s := zzsym.NowNs() - t0
		d := int64(0)
		if len(prods) < len(durs) {
			d = durs[len(prods)]
		}
		time.Sleep(time.Duration(d) * u)
		prods = append(prods, zzProd{s, zzsym.NowNs() - t0})
		return nil
	}
	var notes []int64
	nn := zzsym.Pick("notifications", zzC17Notifications+1)
	last := int64(0)
	for i := 0; i < nn; i++ {
		t := zzsym.I64("notifyAt")
		zzsym.Assume(t >= last && t <= horizon)
		last = t
		notes = append(notes, t)
		zzsym.At(t0+t*int64(u), m.NotifyNewTransactions)
	}
	ctx, cancel := context.WithCancel(context.Background())
	zzsym.At(t0+horizon*int64(u), cancel)
	blockTimer := time.NewTimer(0)
	if lazy {
		_ = m.lazyAggregationLoop(ctx, blockTimer)
	} else {
		_ = m.normalAggregationLoop(ctx, blockTimer)
	}
	cancel()
	// back to units
	for i := range prods {
		prods[i].start /= int64(u)
		prods[i].end /= int64(u)
	}
	return prods, notes, horizon
}

// ZZ_C17_lazy: lazy mode.
func ZZ_C17_lazy() {
	bt := int64(10)
	li := []int64{11, 25, 40}[zzsym.Pick("li", zzC17Intervals)]
	prods, notes, horizon := zzLazyRun(true, bt, li, zzC17Horizon)
	zzsym.Reach("loop-stopped")
	// never faster than one block per block interval
	for i := 1; i < len(prods); i++ {
		zzsym.Assert(prods[i].start-prods[i-1].start >= bt, "at-most-one-block-per-block-interval")
	}
	// a notification leads to a production that starts after it, no later than one
	// block interval (+1 unit timer slack) after the later of the notification
	// and the end of the production in flight at that instant
	for _, n := range notes {
		base := n
		for _, p := range prods {
			if p.start <= n && n < p.end && p.end > base {
				base = p.end
			}
		}
		deadline := base + bt + 1
		if deadline+2*bt+2 > horizon {
			continue // the obligation falls outside the observed window
		}
		served := false
		for _, p := range prods {
			if p.start >= n && p.start <= deadline {
				served = true
			}
		}
		zzsym.Assert(served, "notification-served-within-one-block-interval")
	}
	// idle interval: consecutive productions are never further apart than the
	// idle interval plus the overrun of the earlier production
	for i := 1; i < len(prods); i++ {
		gap := prods[i].start - prods[i-1].start
		over := prods[i-1].end - prods[i-1].start
		limit := li
		if over > limit {
			limit = over
		}
		zzsym.Assert(gap <= limit+1, "a-block-at-least-every-idle-interval")
	}
	zzsym.ObserveU64("productions", uint64(len(prods)))
}

// ZZ_C17_normal: normal mode: one block per block interval whatever the
// notifications.
func ZZ_C17_normal() {
	bt := int64(10)
	prods, _, horizon := zzLazyRun(false, bt, 40, 45)
	zzsym.Reach("loop-stopped")
	for i := 1; i < len(prods); i++ {
		gap := prods[i].start - prods[i-1].start
		over := prods[i-1].end - prods[i-1].start
		zzsym.Assert(gap >= bt, "normal-mode-at-most-one-block-per-interval")
		limit := bt
		if over > limit {
			limit = over
		}
		zzsym.Assert(gap <= limit+1, "normal-mode-one-block-per-interval")
	}
	if horizon >= 3*bt {
		zzsym.Assert(len(prods) >= 1, "normal-mode-produces")
	}
}

// ZZ_C17_start: the real AggregationLoop is started (or restarted) `age`
// units after the time of the last block (0..block interval+5), in lazy or
// normal mode, with a notification pending at start or not: the first block
// after the start is not produced before one block interval has passed since
// the last block, and is produced once it has (lazy: on the idle timer armed
// at start; normal: on the block timer).
func ZZ_C17_start() {
	u := zzUnit()
	zzsym.FreezeClock()
	zzsym.SetClockNs(1 << 40)
	bt := int64(10)
	age := zzsym.I64("age")
	zzsym.Assume(age >= 0 && age <= bt+5)
	e := zzNewEnv(1)
	t0 := zzsym.NowNs()
	last := zzsym.TimeOf(t0 - age*int64(u))
	e.store.height = 3
	m := e.zzManager(types.State{ChainID: e.chainID, InitialHeight: 1, LastBlockHeight: 3, LastBlockTime: last})
	m.config.Node.LazyMode = zzsym.Bool("lazy")
	m.config.Node.BlockTime.Duration = time.Duration(bt) * u
	m.config.Node.LazyBlockInterval.Duration = 25 * u
	var starts []int64
	m.publishBlock = func(ctx context.Context) error {
		starts = append(starts, (zzsym.NowNs()-t0)/int64(u))
		return nil
	}
	if zzsym.Bool("notified-at-start") {
		m.NotifyNewTransactions()
	}
	ctx, cancel := context.WithCancel(context.Background())
	zzsym.At(t0+40*int64(u), cancel)
	errCh := make(chan error, 1)
	m.AggregationLoop(ctx, errCh)
	cancel()
	zzsym.Reach("loop-stopped")
	zzsym.Assert(len(starts) > 0, "produces-after-start")
	if len(starts) > 0 {
		zzsym.Assert(starts[0]+age >= bt, "first-block-after-start-not-before-one-block-interval")
		wait := bt - age
		if wait < 0 {
			wait = 0
		}
		zzsym.Assert(starts[0] <= wait+1, "first-block-after-start-is-due-at-the-block-time")
	}
	for i := 1; i < len(starts); i++ {
		zzsym.Assert(starts[i]-starts[i-1] >= bt, "at-most-one-block-per-block-interval")
	}
}
