package block

// quick bounds: arbitrary durations for the first 2 productions (later ones
// take no time), at most 1 notification, idle interval 10 or 25 units,
// horizon 60 units.
var (
	zzC17SymbolicProductions = 2
	zzC17Notifications       = 1
	zzC17Intervals           = 2
	zzC17Horizon             = int64(60)
)
