package file

var zzC19PassBytes = 6
