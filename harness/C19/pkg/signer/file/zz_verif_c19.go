package file

import (
	"bytes"
	"crypto/aes"
	"crypto/cipher"
	crand "crypto/rand"
	"encoding/json"
	"os"
	"path/filepath"

	"github.com/libp2p/go-libp2p/core/crypto"

	"github.com/evstack/ev-node/internal/zzsym"
	"github.com/evstack/ev-node/pkg/signer"
	"github.com/evstack/ev-node/types"
)

// ZZ_C19_fallback_total: the legacy key derivation is total and deterministic
// for every passphrase of 0..40 bytes (any contents): no panic, result has the
// requested length.  Reachable through LoadFileSystemSigner/ExportPrivateKey
// on a salt-less (legacy) key file with exactly these passphrases.
func ZZ_C19_fallback_total() {
	pp := zzsym.Bytes("pp", 40)
	cp := append([]byte(nil), pp...)
	k := fallbackDeriveKey(pp, 32)
	zzsym.Reach("derived")
	zzsym.Assert(len(k) == 32, "derived-key-length")
	zzsym.ObserveBytes("key", k)
	k2 := fallbackDeriveKey(cp, 32)
	zzsym.Assert(bytes.Equal(k, k2), "derivation-deterministic")
}

// zzLegacyFile writes a salt-less (legacy format) key file for priv under pp,
// built independently of saveKeys: key = legacy derivation, AES-GCM seal.
func zzLegacyFile(dir string, priv crypto.PrivKey, pp []byte) {
	raw, _ := priv.Raw()
	pubRaw, _ := priv.GetPublic().Raw()
	key := make([]byte, 32)
	copy(key, pp)
	for i := len(pp); i < 32; i++ {
		key[i] = pp[i%len(pp)] ^ byte(i)
	}
	if len(pp) >= 32 {
		copy(key, pp[:32])
	}
	block, err := aes.NewCipher(key)
	if err != nil {
		panic(err)
	}
	gcm, err := cipher.NewGCM(block)
	if err != nil {
		panic(err)
	}
	nonce := zzsym.BytesN("nonce", 12)
	ct := gcm.Seal(nil, nonce, raw, nil)
	data, _ := json.Marshal(keyData{PrivKeyEncrypted: ct, Nonce: nonce, PubKeyBytes: pubRaw})
	_ = os.MkdirAll(dir, 0700)
	if err := os.WriteFile(filepath.Join(dir, "signer.json"), data, 0600); err != nil {
		panic(err)
	}
}

func zzSignerWorks(s signer.Signer, priv crypto.PrivKey) bool {
	pub, err := s.GetPublic()
	if err != nil || pub == nil || !pub.Equals(priv.GetPublic()) {
		return false
	}
	msg := []byte("zz")
	sig, err := s.Sign(msg)
	if err != nil {
		return false
	}
	ok, err := pub.Verify(msg, sig)
	if err != nil || !ok {
		return false
	}
	addr, err := s.GetAddress()
	return err == nil && bytes.Equal(addr, types.KeyAddress(pub))
}

// ZZ_C19_save_load: a key saved (ImportPrivateKey = the same sealing code as
// saveKeys) under passphrase p loads with p' iff p' == p, and then to a
// working signer for the same key with the address full nodes derive; export
// returns the key.  Passphrases of 0..3 bytes.
func ZZ_C19_save_load() {
	dir := "/zz/keys"
	priv, _, err := crypto.GenerateEd25519Key(crand.Reader)
	if err != nil {
		panic(err)
	}
	raw, _ := priv.Raw()
	p := zzsym.Bytes("pass", zzC19PassBytes)
	p2 := zzsym.Bytes("pass2", zzC19PassBytes)
	same := bytes.Equal(p, p2)
	// the key may be saved on one host and loaded on another (or under another CPU quota)
	cpus := []int{1, 2, 4, 8}
	zzsym.SetCPUs(cpus[zzsym.Pick("cpus-at-save", 4)])
	zzsym.Assert(ImportPrivateKey(dir, append([]byte(nil), raw...), append([]byte(nil), p...)) == nil, "import-ok")
	zzsym.SetCPUs(cpus[zzsym.Pick("cpus-at-load", 4)])
	s, err := LoadFileSystemSigner(dir, append([]byte(nil), p2...))
	if same {
		zzsym.Reach("right-passphrase")
		zzsym.Assert(err == nil && s != nil, "loads-with-its-passphrase")
		if err == nil && s != nil {
			zzsym.Assert(zzSignerWorks(s, priv), "loaded-signer-works-and-matches")
		}
		exp, err := ExportPrivateKey(dir, append([]byte(nil), p2...))
		zzsym.Assert(err == nil && bytes.Equal(exp, raw), "export-returns-the-key")
	} else {
		zzsym.Reach("wrong-passphrase")
		zzsym.Assert(err != nil, "wrong-passphrase-never-loads")
		_, err := ExportPrivateKey(dir, append([]byte(nil), p2...))
		zzsym.Assert(err != nil, "wrong-passphrase-never-exports")
	}
}

// ZZ_C19_legacy: files in the legacy salt-less format, passphrases of 1, 31,
// 32 and 40 bytes (arbitrary contents): the saved passphrase loads to a
// working signer, a passphrase differing in its first byte does not.
func ZZ_C19_legacy() {
	dir := "/zz/legacy"
	priv, _, err := crypto.GenerateEd25519Key(crand.Reader)
	if err != nil {
		panic(err)
	}
	n := []int{1, 31, 32, 40}[zzsym.Pick("len", 4)]
	p := zzsym.BytesN("pass", n)
	zzLegacyFile(dir, priv, append([]byte(nil), p...))
	s, err := LoadFileSystemSigner(dir, append([]byte(nil), p...))
	zzsym.Assert(err == nil && s != nil, "legacy-file-loads-with-its-passphrase")
	if err == nil && s != nil {
		zzsym.Assert(zzSignerWorks(s, priv), "legacy-signer-works-and-matches")
	}
	bad := append([]byte(nil), p...)
	bad[0] ^= 0x55
	_, err = LoadFileSystemSigner(dir, bad)
	zzsym.Assert(err != nil, "legacy-wrong-passphrase-never-loads")
	zzsym.Reach("legacy")
}

// ZZ_C19_corrupt: one field of a valid key file is replaced by other bytes
// (same length, at least one byte different): loading with the right
// passphrase never yields a signer whose reported public key does not match
// its private key, and never panics.
func ZZ_C19_corrupt() {
	dir := "/zz/corrupt"
	priv, _, err := crypto.GenerateEd25519Key(crand.Reader)
	if err != nil {
		panic(err)
	}
	raw, _ := priv.Raw()
	p := []byte("pw")
	zzsym.Assert(ImportPrivateKey(dir, append([]byte(nil), raw...), append([]byte(nil), p...)) == nil, "import-ok")
	path := filepath.Join(dir, "signer.json")
	bz, _ := os.ReadFile(path)
	var kd keyData
	if json.Unmarshal(bz, &kd) != nil {
		zzsym.Unsupported("cannot re-read the key file")
	}
	field := zzsym.Pick("field", 8)
	mut := func(b []byte) []byte {
		c := zzsym.BytesN("garbage", len(b))
		zzsym.Assume(!bytes.Equal(c, b))
		return c
	}
	switch field {
	case 0:
		kd.PubKeyBytes = mut(kd.PubKeyBytes)
	case 1:
		kd.Nonce = mut(kd.Nonce)
	case 2:
		kd.Salt = mut(kd.Salt)
	case 3:
		kd.PubKeyBytes = kd.PubKeyBytes[:len(kd.PubKeyBytes)-1] // truncated
	case 4:
		kd.Nonce = kd.Nonce[:len(kd.Nonce)-1] // truncated nonce
	case 5:
		kd.Nonce = nil // nonce field missing
	case 6:
		kd.PrivKeyEncrypted = kd.PrivKeyEncrypted[:10] // ciphertext shorter than the tag
	case 7:
		kd.PrivKeyEncrypted = kd.PrivKeyEncrypted[:len(kd.PrivKeyEncrypted)-1] // truncated ciphertext
	}
	zzsym.Region("nonce-of-the-wrong-length", field == 4 || field == 5)
	zzsym.Region("clear-text-public-key-corrupted", field == 0)
	bz2, _ := json.Marshal(kd)
	_ = os.WriteFile(path, bz2, 0600)
	s, err := LoadFileSystemSigner(dir, append([]byte(nil), p...))
	if err == nil && s != nil {
		zzsym.Assert(zzSignerWorks(s, priv), "corrupted-file-never-yields-a-mismatching-signer")
	} else {
		zzsym.Reach("corruption-rejected")
	}
}

// ZZ_C19_export_import: a key is exported from a key file (salted or in the
// legacy salt-less format) and imported again in place -- or into a directory
// holding another key's file, or an empty one -- under a new passphrase: the
// imported file loads with the new passphrase to a working signer for the
// same key, export returns the same bytes, and a different passphrase fails.
func ZZ_C19_export_import() {
	dir := "/zz/migrate"
	priv, _, err := crypto.GenerateEd25519Key(crand.Reader)
	if err != nil {
		panic(err)
	}
	raw, _ := priv.Raw()
	old := zzsym.BytesN("old", 2)
	src := zzsym.Pick("source", 3) // 0 salted file, 1 legacy file, 2 key in hand (empty target directory)
	switch src {
	case 0:
		zzsym.Assert(ImportPrivateKey(dir, append([]byte(nil), raw...), append([]byte(nil), old...)) == nil, "import-ok")
	case 1:
		zzLegacyFile(dir, priv, append([]byte(nil), old...))
	}
	zzsym.Region("replaces-a-legacy-file", src == 1)
	exp := raw
	if src != 2 {
		exp, err = ExportPrivateKey(dir, append([]byte(nil), old...))
		zzsym.Assert(err == nil && bytes.Equal(exp, raw), "export-returns-the-key")
		if err != nil {
			return
		}
	}
	target := dir
	if zzsym.Bool("other-dir-with-foreign-key") {
		target = "/zz/other"
		foreign, _, _ := crypto.GenerateEd25519Key(crand.Reader)
		if zzsym.Bool("foreign-is-legacy") {
			zzLegacyFile(target, foreign, []byte("fp"))
		} else {
			fr, _ := foreign.Raw()
			zzsym.Assert(ImportPrivateKey(target, fr, []byte("fp")) == nil, "import-ok")
		}
	}
	p := zzsym.Bytes("new", zzC19PassBytes)
	zzsym.Assert(ImportPrivateKey(target, append([]byte(nil), exp...), append([]byte(nil), p...)) == nil, "re-import-ok")
	s, err := LoadFileSystemSigner(target, append([]byte(nil), p...))
	zzsym.Assert(err == nil && s != nil, "imported-key-loads-with-its-passphrase")
	if err == nil && s != nil {
		zzsym.Assert(zzSignerWorks(s, priv), "export-then-import-preserves-the-key")
	}
	exp2, err := ExportPrivateKey(target, append([]byte(nil), p...))
	zzsym.Assert(err == nil && bytes.Equal(exp2, raw), "re-export-returns-the-key")
	p2 := zzsym.Bytes("wrong", zzC19PassBytes)
	if !bytes.Equal(p, p2) {
		_, err := LoadFileSystemSigner(target, append([]byte(nil), p2...))
		zzsym.Assert(err != nil, "wrong-passphrase-never-loads")
	}
	zzsym.Reach("migrated")
}
