package file

import (
	"bytes"

	"github.com/evstack/ev-node/internal/zzsym"
)

// ZZ_C19_fallback_total: the legacy key derivation is total and deterministic
// for every passphrase of 0..40 bytes (any contents): no panic, result has the
// requested length.  Reachable through LoadFileSystemSigner/ExportPrivateKey
// on a salt-less (legacy) key file with exactly these passphrases.
func ZZ_C19_fallback_total() {
	pp := zzsym.Bytes("pp", 40)
	cp := append([]byte(nil), pp...)
	k := fallbackDeriveKey(pp, 32)
	zzsym.Reach("derived")
	zzsym.Assert(len(k) == 32, "derived-key-length")
	zzsym.ObserveBytes("key", k)
	k2 := fallbackDeriveKey(cp, 32)
	zzsym.Assert(bytes.Equal(k, k2), "derivation-deterministic")
}
