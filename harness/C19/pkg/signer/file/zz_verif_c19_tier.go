package file

// passphrase length in the sealing harnesses: quick 0..3 bytes, thorough 0..6
var zzC19PassBytes = 3
