package based

var zzC20Calls = 4
