package based

import (
	"bytes"
	"context"
	"errors"
	"time"

	ds "github.com/ipfs/go-datastore"
	"github.com/ipfs/go-datastore/query"
	logging "github.com/ipfs/go-log/v2"

	coreda "github.com/evstack/ev-node/core/da"
	coresequencer "github.com/evstack/ev-node/core/sequencer"
	"github.com/evstack/ev-node/sequencers/based/internal/zzsym"
)

// ---- datastore double (durable map) -----------------------------------------

type zzKV struct{ m map[string][]byte }

func (k *zzKV) Get(ctx context.Context, key ds.Key) ([]byte, error) {
	v, ok := k.m[key.String()]
	if !ok {
		return nil, ds.ErrNotFound
	}
	return append([]byte(nil), v...), nil
}
func (k *zzKV) Has(ctx context.Context, key ds.Key) (bool, error) {
	_, ok := k.m[key.String()]
	return ok, nil
}
func (k *zzKV) GetSize(ctx context.Context, key ds.Key) (int, error) { return 0, nil }
func (k *zzKV) Query(ctx context.Context, q query.Query) (query.Results, error) {
	zzsym.Unsupported("zzKV.Query")
	return nil, nil
}
func (k *zzKV) Put(ctx context.Context, key ds.Key, value []byte) error {
	k.m[key.String()] = append([]byte(nil), value...)
	return nil
}
func (k *zzKV) Delete(ctx context.Context, key ds.Key) error  { delete(k.m, key.String()); return nil }
func (k *zzKV) Sync(ctx context.Context, prefix ds.Key) error { return nil }
func (k *zzKV) Close() error                                  { return nil }
func (k *zzKV) Batch(ctx context.Context) (ds.Batch, error) {
	zzsym.Unsupported("zzKV.Batch")
	return nil, nil
}

// ---- DA double: fixed contents per height ------------------------------------

const (
	zzHOK = iota
	zzHNotFound
	zzHFuture
	zzHError
)

type zzDA struct {
	start uint64
	kind  []int
	txs   [][][]byte
}

var zzErr = errors.New("zz: da error")

func (d *zzDA) GetIDs(ctx context.Context, height uint64, ns []byte) (*coreda.GetIDsResult, error) {
	if height < d.start || height-d.start >= uint64(len(d.kind)) {
		return nil, coreda.ErrHeightFromFuture
	}
	r := int(height - d.start)
	switch d.kind[r] {
	case zzHNotFound:
		return nil, coreda.ErrBlobNotFound
	case zzHFuture:
		return nil, coreda.ErrHeightFromFuture
	case zzHError:
		return nil, zzErr
	}
	ids := make([]coreda.ID, len(d.txs[r]))
	for i := range ids {
		id := make([]byte, 10)
		for j := 0; j < 8; j++ {
			id[j] = byte(height >> (8 * uint(j)))
		}
		id[8], id[9] = byte(r), byte(i)
		ids[i] = id
	}
	return &coreda.GetIDsResult{IDs: ids, Timestamp: time.Unix(int64(1000+r), 0)}, nil
}
func (d *zzDA) Get(ctx context.Context, ids []coreda.ID, ns []byte) ([]coreda.Blob, error) {
	out := make([]coreda.Blob, len(ids))
	for i, id := range ids {
		out[i] = d.txs[int(id[8])][int(id[9])]
	}
	return out, nil
}
func (d *zzDA) GetProofs(ctx context.Context, ids []coreda.ID, ns []byte) ([]coreda.Proof, error) {
	return nil, nil
}
func (d *zzDA) Commit(ctx context.Context, blobs []coreda.Blob, ns []byte) ([]coreda.Commitment, error) {
	return nil, nil
}
func (d *zzDA) Submit(ctx context.Context, blobs []coreda.Blob, gp float64, ns []byte) ([]coreda.ID, error) {
	return nil, nil
}
func (d *zzDA) SubmitWithOptions(ctx context.Context, blobs []coreda.Blob, gp float64, ns []byte, o []byte) ([]coreda.ID, error) {
	return nil, nil
}
func (d *zzDA) Validate(ctx context.Context, ids []coreda.ID, proofs []coreda.Proof, ns []byte) ([]bool, error) {
	return nil, nil
}
func (d *zzDA) GasPrice(ctx context.Context) (float64, error)      { return 1, nil }
func (d *zzDA) GasMultiplier(ctx context.Context) (float64, error) { return 1, nil }

// ZZ_C20_batches: DA heights 10..12 hold 0..2 transactions of 1..2 bytes each
// (every transaction is distinguishable) or answer not-found / from-future /
// error; the size limit is an arbitrary value up to 6; up to zzC20Calls
// successive GetNextBatch calls, each passing the previous batch's cursor, with
// an optional restart (new Sequencer on the same datastore) before any call.
// The released batches, concatenated, are a prefix of the DA-ordered list of
// transactions, each batch within the limit.
func ZZ_C20_batches() {
	zzsym.FreezeClock()
	kv := &zzKV{m: map[string][]byte{}}
	da := &zzDA{start: 10, kind: make([]int, 3), txs: make([][][]byte, 3)}
	var ref [][]byte // DA order, only heights that are readable
	blockedAt := -1
	tag := byte(1)
	anyFuture, anyErr := false, false
	for r := 0; r < 3; r++ {
		da.kind[r] = zzsym.Pick("hkind", 4)
		if da.kind[r] == zzHFuture {
			anyFuture = true
		}
		if da.kind[r] == zzHError {
			anyErr = true
		}
		if da.kind[r] != zzHOK {
			if (da.kind[r] == zzHFuture || da.kind[r] == zzHError) && blockedAt < 0 {
				blockedAt = r
			}
			continue
		}
		n := zzsym.Pick("ntx", 3)
		for i := 0; i < n; i++ {
			tx := make([]byte, 1+zzsym.Pick("txlen", 2))
			tx[0] = tag
			tag++
			da.txs[r] = append(da.txs[r], tx)
			if blockedAt < 0 {
				ref = append(ref, tx)
			}
		}
	}
	maxBytes := zzsym.U64("maxBytes")
	zzsym.Assume(maxBytes >= 1 && maxBytes <= 6)
	drift := uint64(zzsym.Pick("drift", 3))
	id := []byte("chain")
	mk := func() *Sequencer {
		s, err := NewSequencer(logging.Logger("zz"), da, id, 10, drift, kv)
		if err != nil {
			zzsym.Unsupported("NewSequencer failed on a healthy datastore")
		}
		return s
	}
	s := mk()
	ctx := context.Background()
	var released [][]byte
	var cursor [][]byte
	oversize := false
	for _, t := range ref {
		if uint64(len(t)) > maxBytes {
			oversize = true
		}
	}
	zzsym.Region("some-height-not-readable-yet", anyFuture)
	zzsym.Region("some-height-fails-with-an-error", anyErr)
	zzsym.Region("a-transaction-exceeds-the-limit", oversize)
	carried := false
	for c := 0; c < zzC20Calls; c++ {
		zzsym.Region("carry-over-queue-was-used", carried)
		carried0 := carried
		if zzsym.Bool("restart") {
			s = mk()
		}
		res, err := s.GetNextBatch(ctx, coresequencer.GetNextBatchRequest{Id: id, LastBatchData: cursor, MaxBytes: maxBytes})
		zzsym.Assert(err == nil, "get-next-batch-does-not-fail")
		if len(s.pendingTxs.list) > 0 {
			carried = true
			zzsym.Region("carry-over-queue-was-used", true)
		}
		// restart safety of the carry-over queue: what a new process would load
		// is exactly what this process holds
		reload, lerr := NewPersistentPendingTxs(kv)
		zzsym.Assert(lerr == nil, "carry-over-queue-reloads")
		if lerr == nil {
			same := len(reload.list) == len(s.pendingTxs.list)
			for i := 0; same && i < len(reload.list); i++ {
				a, b := reload.list[i], s.pendingTxs.list[i]
				same = len(a.Txs) == len(b.Txs)
				for j := 0; same && j < len(a.Txs); j++ {
					same = bytes.Equal(a.Txs[j], b.Txs[j])
				}
			}
			zzsym.Assert(same, "carry-over-queue-persisted-after-every-call")
		}
		if err != nil || res == nil || res.Batch == nil {
			continue
		}
		var size uint64
		for _, tx := range res.Batch.Transactions {
			size += uint64(len(tx))
		}
		zzsym.Assert(size <= maxBytes, "batch-within-requested-size")
		if !carried0 {
			// nothing was carried over before this call: whatever defect the carry-over
			// queue has later (C20-K1), this batch on its own continues the DA order
			for i, tx := range res.Batch.Transactions {
				k := len(released) + i
				zzsym.Assert(k < len(ref) && bytes.Equal(tx, ref[k]), "batch-before-any-carry-over-continues-da-order")
			}
		}
		released = append(released, res.Batch.Transactions...)
		if len(res.BatchData) > 0 {
			cursor = res.BatchData
		}
		// prefix property after every call: no duplicate, omission or reorder
		zzsym.Assert(len(released) <= len(ref), "nothing-released-twice-or-invented")
		for i := range released {
			if i < len(ref) {
				zzsym.Assert(bytes.Equal(released[i], ref[i]), "released-in-da-order-each-exactly-once")
			}
		}
	}
	zzsym.ObserveU64("released", uint64(len(released)))
	zzsym.Reach("calls-done")
}
