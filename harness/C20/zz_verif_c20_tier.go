package based

// GetNextBatch calls per history: quick 3, thorough 4
var zzC20Calls = 3
