package block

// Environment doubles shared by the manager harnesses.  They are ordinary Go:
// symbolically executed by the engine and compiled natively for replay.

import (
	"bytes"
	"context"
	crand "crypto/rand"
	"crypto/sha256"
	"encoding/binary"
	"errors"
	"fmt"
	"sync"
	"sync/atomic"
	"time"

	ds "github.com/ipfs/go-datastore"
	dsq "github.com/ipfs/go-datastore/query"
	logging "github.com/ipfs/go-log/v2"
	"github.com/libp2p/go-libp2p/core/crypto"
	"google.golang.org/protobuf/proto"

	coreda "github.com/evstack/ev-node/core/da"
	coresequencer "github.com/evstack/ev-node/core/sequencer"
	"github.com/evstack/ev-node/internal/zzsym"
	"github.com/evstack/ev-node/pkg/cache"
	"github.com/evstack/ev-node/pkg/config"
	"github.com/evstack/ev-node/pkg/genesis"
	"github.com/evstack/ev-node/pkg/signer"
	"github.com/evstack/ev-node/pkg/signer/noop"
	"github.com/evstack/ev-node/types"
)

var zzErrInjected = errors.New("zz: injected failure")
var zzErrCrash = errors.New("zz: process crashed")

// ---------------------------------------------------------------- store ----

type zzSlot struct {
	header *types.SignedHeader
	data   *types.Data
	sig    types.Signature
}

// zzStore implements storepkg.Store as a height-indexed map (the contract that
// C14 establishes for the real DefaultStore).  Durable writes are counted;
// when the counter reaches crashAt the write and everything after it is lost
// (the process is dead) and zzErrCrash is returned.
type zzStore struct {
	height   uint64
	blocks   map[uint64]*zzSlot
	state    types.State
	hasState bool
	meta     map[string][]byte
	writes   int
	crashAt  int // -1: never
	crashed  bool
	log      []string
	failMeta string // SetMetadata on this key fails
}

func zzNewStore() *zzStore {
	return &zzStore{blocks: map[uint64]*zzSlot{}, meta: map[string][]byte{}, crashAt: -1}
}

func (s *zzStore) write(what string) bool {
	zzsym.Yield() // I/O: in a multi-threaded harness another activity may run here
	if s.crashed {
		return false
	}
	if s.crashAt >= 0 && s.writes == s.crashAt {
		s.crashed = true
		return false
	}
	s.writes++
	s.log = append(s.log, what)
	return true
}

func (s *zzStore) Height(ctx context.Context) (uint64, error) { return s.height, nil }
func (s *zzStore) SetHeight(ctx context.Context, h uint64) error {
	if h <= s.height {
		return nil
	}
	if !s.write("height") {
		return zzErrCrash
	}
	s.height = h
	return nil
}
func zzCopyHeader(h *types.SignedHeader) *types.SignedHeader {
	c := *h
	c.Signature = append(types.Signature(nil), h.Signature...)
	return &c
}
func zzCopyData(d *types.Data) *types.Data {
	c := &types.Data{Txs: append(types.Txs(nil), d.Txs...)}
	if d.Metadata != nil {
		m := *d.Metadata
		c.Metadata = &m
	}
	return c
}
func (s *zzStore) SaveBlockData(ctx context.Context, header *types.SignedHeader, data *types.Data, sig *types.Signature) error {
	if !s.write("block") {
		return zzErrCrash
	}
	s.blocks[header.Height()] = &zzSlot{zzCopyHeader(header), zzCopyData(data), append(types.Signature(nil), (*sig)...)}
	return nil
}
func (s *zzStore) GetBlockData(ctx context.Context, h uint64) (*types.SignedHeader, *types.Data, error) {
	sl, ok := s.blocks[h]
	if !ok {
		return nil, nil, fmt.Errorf("no block at height: %w", ds.ErrNotFound)
	}
	return zzCopyHeader(sl.header), zzCopyData(sl.data), nil
}
func (s *zzStore) GetBlockByHash(ctx context.Context, hash []byte) (*types.SignedHeader, *types.Data, error) {
	zzsym.Unsupported("zzStore.GetBlockByHash")
	return nil, nil, nil
}
func (s *zzStore) GetHeader(ctx context.Context, h uint64) (*types.SignedHeader, error) {
	hd, _, err := s.GetBlockData(ctx, h)
	return hd, err
}
func (s *zzStore) GetSignature(ctx context.Context, h uint64) (*types.Signature, error) {
	sl, ok := s.blocks[h]
	if !ok {
		return nil, fmt.Errorf("no signature at height: %w", ds.ErrNotFound)
	}
	sig := append(types.Signature(nil), sl.sig...)
	return &sig, nil
}
func (s *zzStore) GetSignatureByHash(ctx context.Context, hash []byte) (*types.Signature, error) {
	zzsym.Unsupported("zzStore.GetSignatureByHash")
	return nil, nil
}
func (s *zzStore) UpdateState(ctx context.Context, st types.State) error {
	if !s.write("state") {
		return zzErrCrash
	}
	s.state, s.hasState = st, true
	return nil
}
func (s *zzStore) GetState(ctx context.Context) (types.State, error) {
	if !s.hasState {
		return types.State{}, fmt.Errorf("no state: %w", ds.ErrNotFound)
	}
	return s.state, nil
}
func (s *zzStore) SetMetadata(ctx context.Context, key string, value []byte) error {
	if s.failMeta != "" && key == s.failMeta {
		return zzErrInjected
	}
	if !s.write("meta:" + key) {
		return zzErrCrash
	}
	s.meta[key] = append([]byte(nil), value...)
	return nil
}
func (s *zzStore) GetMetadata(ctx context.Context, key string) ([]byte, error) {
	v, ok := s.meta[key]
	if !ok {
		return nil, ds.ErrNotFound
	}
	return append([]byte(nil), v...), nil
}
func (s *zzStore) Close() error { return nil }

// restart: what a new process sees (durable image only, counters reset)
func (s *zzStore) reopen() *zzStore {
	n := &zzStore{height: s.height, blocks: s.blocks, state: s.state, hasState: s.hasState, meta: s.meta, crashAt: -1}
	return n
}

// ------------------------------------------------------------- executor ----

type zzExecCall struct {
	txs      [][]byte
	height   uint64
	prevRoot []byte
	root     []byte
}

type zzExec struct {
	calls    []zzExecCall
	finals   []uint64
	failExec bool
	failInit bool
	failFin  bool
	initRoot []byte
	rootTag  string
}

func (e *zzExec) InitChain(ctx context.Context, t time.Time, ih uint64, chainID string) ([]byte, uint64, error) {
	if e.failInit {
		return nil, 0, zzErrInjected
	}
	if e.initRoot == nil {
		e.initRoot = zzsym.BytesN("initroot", 32)
	}
	return e.initRoot, 1 << 20, nil
}
func (e *zzExec) GetTxs(ctx context.Context) ([][]byte, error) { return nil, nil }
func (e *zzExec) ExecuteTxs(ctx context.Context, txs [][]byte, h uint64, t time.Time, prev []byte) ([]byte, uint64, error) {
	if e.failExec {
		e.calls = append(e.calls, zzExecCall{txs, h, prev, nil})
		return nil, 0, zzErrInjected
	}
	root := zzsym.BytesN("root", 32)
	e.calls = append(e.calls, zzExecCall{txs, h, prev, root})
	return root, 1 << 20, nil
}
func (e *zzExec) SetFinal(ctx context.Context, h uint64) error {
	if e.failFin {
		return zzErrInjected
	}
	e.finals = append(e.finals, h)
	return nil
}

// ------------------------------------------------------------ sequencer ----

type zzSeqAnswer struct {
	err      bool
	nilResp  bool
	nilBatch bool
	txs      [][]byte
	ts       time.Time
	cursor   [][]byte
}

type zzSeq struct {
	script []zzSeqAnswer
	calls  int
	reqs   []coresequencer.GetNextBatchRequest
}

func (s *zzSeq) SubmitBatchTxs(ctx context.Context, req coresequencer.SubmitBatchTxsRequest) (*coresequencer.SubmitBatchTxsResponse, error) {
	return &coresequencer.SubmitBatchTxsResponse{}, nil
}
func (s *zzSeq) VerifyBatch(ctx context.Context, req coresequencer.VerifyBatchRequest) (*coresequencer.VerifyBatchResponse, error) {
	return &coresequencer.VerifyBatchResponse{Status: true}, nil
}
func (s *zzSeq) GetNextBatch(ctx context.Context, req coresequencer.GetNextBatchRequest) (*coresequencer.GetNextBatchResponse, error) {
	s.reqs = append(s.reqs, req)
	if s.calls >= len(s.script) {
		zzsym.Unsupported("zzSeq: script exhausted")
	}
	a := s.script[s.calls]
	s.calls++
	switch {
	case a.err:
		return nil, zzErrInjected
	case a.nilResp:
		return nil, nil
	case a.nilBatch:
		return &coresequencer.GetNextBatchResponse{Timestamp: a.ts, BatchData: a.cursor}, nil
	}
	return &coresequencer.GetNextBatchResponse{Batch: &coresequencer.Batch{Transactions: a.txs}, Timestamp: a.ts, BatchData: a.cursor}, nil
}

// zzSeqAny builds an arbitrary answer: error / nil / nil batch / batch of 0..maxTx
// txs of 0..1 symbolic bytes, arbitrary timestamp, cursor of 0..1 entries.
func zzSeqAny(pfx string, maxTx int) zzSeqAnswer {
	a := zzSeqAnswer{}
	switch zzsym.Pick(pfx+"kind", 4) {
	case 0:
		a.err = true
		return a
	case 1:
		a.nilResp = true
		return a
	case 2:
		a.nilBatch = true
	}
	a.ts = zzsym.TimeOf(zzTimeNs(pfx + "ts"))
	if !a.nilBatch {
		n := zzsym.Pick(pfx+"ntx", maxTx+1)
		a.txs = [][]byte{}
		for i := 0; i < n; i++ {
			a.txs = append(a.txs, zzsym.Bytes(pfx+"tx", 1))
		}
	}
	if zzsym.Bool(pfx + "hascursor") {
		a.cursor = [][]byte{zzsym.BytesN(pfx+"cur", 1)}
	}
	return a
}

// timestamps live in a range where int64 arithmetic cannot wrap
func zzTimeNs(name string) int64 {
	t := zzsym.I64(name)
	zzsym.Assume(t >= 1 && t <= 1<<61)
	return t
}

// ---------------------------------------------------------- broadcasters ----

type zzHB struct {
	got  []*types.SignedHeader
	fail bool
}

func (b *zzHB) WriteToStoreAndBroadcast(ctx context.Context, h *types.SignedHeader) error {
	if b.fail {
		return zzErrInjected
	}
	b.got = append(b.got, zzCopyHeader(h))
	return nil
}

type zzDB struct {
	got  []*types.Data
	fail bool
}

func (b *zzDB) WriteToStoreAndBroadcast(ctx context.Context, d *types.Data) error {
	if b.fail {
		return zzErrInjected
	}
	b.got = append(b.got, zzCopyData(d))
	return nil
}

// ------------------------------------------------------------------ env ----

type zzEnv struct {
	priv    crypto.PrivKey
	pub     crypto.PubKey
	signer  signer.Signer
	addr    []byte
	gen     genesis.Genesis
	store   *zzStore
	exec    *zzExec
	seq     *zzSeq
	hb      *zzHB
	db      *zzDB
	da      coreda.DA
	cfg     config.Config
	chainID string
}

func zzNewEnv(initialHeight uint64) *zzEnv {
	priv, pub, err := crypto.GenerateEd25519Key(crand.Reader)
	if err != nil {
		panic(err)
	}
	sg, err := noop.NewNoopSigner(priv)
	if err != nil {
		panic(err)
	}
	addr, _ := sg.GetAddress()
	e := &zzEnv{priv: priv, pub: pub, signer: sg, addr: addr, chainID: "zzchain",
		store: zzNewStore(), exec: &zzExec{}, seq: &zzSeq{}, hb: &zzHB{}, db: &zzDB{}}
	e.gen = genesis.Genesis{ChainID: e.chainID, GenesisDAStartTime: zzsym.TimeOf(zzTimeNs("genesistime")), InitialHeight: initialHeight, ProposerAddress: addr}
	// make the digest of the empty tx list (the constant dataHashForEmptyTxs) a
	// known sha256 image for the engine
	_ = new(types.Data).DACommitment()
	e.cfg = config.Config{}
	e.cfg.RootDir = zzsym.TempDir() // cache files go here
	e.cfg.Node.BlockTime.Duration = time.Second
	e.cfg.Node.LazyBlockInterval.Duration = 60 * time.Second
	e.cfg.DA.BlockTime.Duration = 6 * time.Second
	e.cfg.DA.MempoolTTL = 25
	return e
}

// zzManager builds a Manager directly on the doubles (what NewManager would
// assemble once the state is loaded), with the given last state.
func (e *zzEnv) zzManager(st types.State) *Manager {
	daH := atomic.Uint64{}
	daH.Store(st.DAHeight)
	logger := logging.Logger("zz")
	m := &Manager{
		signer: e.signer, config: e.cfg, genesis: e.gen, lastState: st, store: e.store, daHeight: &daH,
		headerBroadcaster: e.hb, dataBroadcaster: e.db,
		headerInCh: make(chan NewHeaderEvent, 8), dataInCh: make(chan NewDataEvent, 8),
		headerStoreCh: make(chan struct{}, 1), dataStoreCh: make(chan struct{}, 1),
		lastStateMtx: new(sync.RWMutex),
		headerCache:  cache.NewCache[types.SignedHeader](), dataCache: cache.NewCache[types.Data](),
		retrieveCh: make(chan struct{}, 1), daIncluderCh: make(chan struct{}, 1),
		logger: logger, metrics: NopMetrics(), sequencer: e.seq, exec: e.exec, da: e.da,
		gasPrice: 1, gasMultiplier: 1, txNotifyCh: make(chan struct{}, 1),
		signaturePayloadProvider: types.DefaultSignaturePayloadProvider,
		validatorHasherProvider:  types.DefaultValidatorHasherProvider,
	}
	m.pendingHeaders = &PendingHeaders{base: &pendingBase[*types.SignedHeader]{logger: logger, store: e.store, metaKey: "last-submitted-header-height", fetch: fetchSignedHeader}}
	m.pendingData = &PendingData{base: &pendingBase[*types.Data]{logger: logger, store: e.store, metaKey: "last-submitted-data-height", fetch: fetchData}}
	m.publishBlock = m.publishBlockInternal
	return m
}

// zzSignedBlock makes a committed block at height h signed by the genesis
// key: arbitrary time/apphash/txs, given previous header hash.
func (e *zzEnv) zzSignedBlock(pfx string, h uint64, ts int64, lastHash types.Hash, appHash []byte, txs types.Txs) *zzSlot {
	hdr := &types.SignedHeader{
		Header: types.Header{
			BaseHeader:      types.BaseHeader{ChainID: e.chainID, Height: h, Time: uint64(ts)},
			LastHeaderHash:  lastHash,
			ConsensusHash:   make(types.Hash, 32),
			AppHash:         appHash,
			ProposerAddress: e.addr,
		},
		Signer: types.Signer{PubKey: e.pub, Address: e.addr},
	}
	d := &types.Data{Txs: txs}
	if len(txs) == 0 {
		d.Txs = types.Txs{}
		hdr.DataHash = dataHashForEmptyTxs
	} else {
		hdr.DataHash = d.DACommitment()
	}
	d.Metadata = &types.Metadata{ChainID: e.chainID, Height: h, Time: uint64(ts)}
	payload, _ := types.DefaultSignaturePayloadProvider(&hdr.Header)
	sig, err := e.signer.Sign(payload)
	if err != nil {
		panic(err)
	}
	hdr.Signature = sig
	return &zzSlot{hdr, d, sig}
}

func zzTxsEqual(a types.Txs, b [][]byte) bool {
	if len(a) != len(b) {
		return false
	}
	for i := range a {
		if !bytes.Equal(a[i], b[i]) {
			return false
		}
	}
	return true
}

// zzVerifies: the header carries the genesis public key and its signature
// verifies under it over the default payload.
func (e *zzEnv) zzVerifies(h *types.SignedHeader) bool {
	if h.Signer.PubKey == nil || !h.Signer.PubKey.Equals(e.pub) {
		return false
	}
	payload, err := types.DefaultSignaturePayloadProvider(&h.Header)
	if err != nil {
		return false
	}
	ok, err := e.pub.Verify(payload, h.Signature)
	return err == nil && ok
}

func m0logger() logging.EventLogger { return logging.Logger("zz") }

// ------------------------------------------------------------------- DA ----

type zzDAAnswer struct {
	kind   int // 0 accept all, 1 accept prefix k, 2 timed out, 3 already in mempool, 4 too big, 5 deadline, 6 generic, 7 cancelled, 8 accepted but ack lost
	prefix int
	wrap   bool
}

type zzAccepted struct {
	blob   []byte
	height uint64
}

// zzDA: scripted DA layer.  Every blob it accepts is recorded with the DA
// height at which it was included.
type zzDA struct {
	script   []zzDAAnswer
	calls    int
	offered  [][][]byte
	accepted []zzAccepted
	height   uint64
	// honourCtx: like every network client, a call made with a cancelled context fails with the context's error
	honourCtx bool
}

func zzDAAny(pfx string, maxPrefix int) zzDAAnswer {
	a := zzDAAnswer{kind: zzsym.Pick(pfx+"kind", 9)}
	if a.kind == 1 {
		a.prefix = zzsym.Pick(pfx+"prefix", maxPrefix+1)
	}
	if a.kind == 2 || a.kind == 3 {
		a.wrap = zzsym.Bool(pfx + "wrap")
	}
	return a
}

func (d *zzDA) ids(n int) []coreda.ID {
	out := make([]coreda.ID, n)
	for i := range out {
		id := make([]byte, 9)
		h := d.height
		for j := 0; j < 8; j++ {
			id[j] = byte(h >> (8 * uint(j)))
		}
		id[8] = byte(i)
		out[i] = id
	}
	return out
}

func (d *zzDA) accept(blobs [][]byte, n int) []coreda.ID {
	d.height++
	for i := 0; i < n; i++ {
		d.accepted = append(d.accepted, zzAccepted{append([]byte(nil), blobs[i]...), d.height})
	}
	return d.ids(n)
}

func (d *zzDA) SubmitWithOptions(ctx context.Context, blobs []coreda.Blob, gasPrice float64, ns []byte, opts []byte) ([]coreda.ID, error) {
	if d.honourCtx && ctx.Err() != nil {
		return nil, ctx.Err()
	}
	zzsym.Yield() // network I/O
	d.offered = append(d.offered, blobs)
	a := zzDAAnswer{}
	if d.calls < len(d.script) {
		a = d.script[d.calls]
	}
	d.calls++
	wrap := func(err error) error {
		if a.wrap {
			return fmt.Errorf("da layer: %w", err)
		}
		return err
	}
	switch a.kind {
	case 0:
		return d.accept(blobs, len(blobs)), nil
	case 1:
		k := a.prefix
		if k > len(blobs) {
			k = len(blobs)
		}
		if k == 0 {
			return []coreda.ID{}, nil
		}
		return d.accept(blobs, k), nil
	case 2:
		return nil, wrap(coreda.ErrTxTimedOut)
	case 3:
		return nil, wrap(coreda.ErrTxAlreadyInMempool)
	case 4:
		return nil, wrap(coreda.ErrBlobSizeOverLimit)
	case 5:
		return nil, wrap(coreda.ErrContextDeadline)
	case 6:
		return nil, wrap(zzErrInjected)
	case 7:
		return nil, context.Canceled
	default:
		d.accept(blobs, len(blobs))
		return nil, zzErrInjected
	}
}
func (d *zzDA) Submit(ctx context.Context, blobs []coreda.Blob, gasPrice float64, ns []byte) ([]coreda.ID, error) {
	return d.SubmitWithOptions(ctx, blobs, gasPrice, ns, nil)
}
func (d *zzDA) Get(ctx context.Context, ids []coreda.ID, ns []byte) ([]coreda.Blob, error) {
	zzsym.Unsupported("zzDA.Get")
	return nil, nil
}
func (d *zzDA) GetIDs(ctx context.Context, height uint64, ns []byte) (*coreda.GetIDsResult, error) {
	zzsym.Unsupported("zzDA.GetIDs")
	return nil, nil
}
func (d *zzDA) GetProofs(ctx context.Context, ids []coreda.ID, ns []byte) ([]coreda.Proof, error) {
	return nil, nil
}
func (d *zzDA) Commit(ctx context.Context, blobs []coreda.Blob, ns []byte) ([]coreda.Commitment, error) {
	return nil, nil
}
func (d *zzDA) Validate(ctx context.Context, ids []coreda.ID, proofs []coreda.Proof, ns []byte) ([]bool, error) {
	return nil, nil
}
func (d *zzDA) GasPrice(ctx context.Context) (float64, error)      { return 1, nil }
func (d *zzDA) GasMultiplier(ctx context.Context) (float64, error) { return 1, nil }

// zzChain fills the store with committed blocks base+1 .. base+n (hash
// linked, signed, each empty or with one tx as chosen by nonEmpty) and sets
// the chain height.
func (e *zzEnv) zzChain(base uint64, n int, nonEmpty []bool) {
	prev := types.Hash(zzsym.BytesN("hashBase", 32))
	ts := zzTimeNs("tsBase")
	for i := 0; i < n; i++ {
		var txs types.Txs
		if nonEmpty[i] {
			txs = types.Txs{types.Tx(zzsym.BytesN("tx", 1))}
		}
		sl := e.zzSignedBlock("c", base+uint64(i)+1, ts+int64(i), prev, zzsym.BytesN("app", 2), txs)
		e.store.blocks[base+uint64(i)+1] = sl
		prev = sl.header.Hash()
	}
	e.store.height = base + uint64(n)
}

func zzRaw(t types.Txs) [][]byte {
	out := make([][]byte, len(t))
	for i := range t {
		out[i] = t[i]
	}
	return out
}

// zzInvState builds an arbitrary node state satisfying Inv_node with chain
// height H >= I: a committed block at H (arbitrary time, app hash, 0..1 txs),
// signed by the genesis key; lastState agrees with it.  Returns the manager.
func zzInvState(e *zzEnv, H uint64) (*Manager, *zzSlot) {
	tsH := zzTimeNs("tsH")
	prevHash := types.Hash(zzsym.BytesN("hashHm1", 32))
	appH := zzsym.BytesN("appHashInHdrH", 32)
	var txs types.Txs
	if zzsym.Bool("Hnonempty") {
		txs = types.Txs{types.Tx(zzsym.Bytes("txH", 1))}
	}
	sl := e.zzSignedBlock("H", H, tsH, prevHash, appH, txs)
	e.store.blocks[H] = sl
	e.store.height = H
	st := types.State{ChainID: e.chainID, InitialHeight: e.gen.InitialHeight, LastBlockHeight: H,
		LastBlockTime: sl.header.Time(), AppHash: zzsym.BytesN("rootH", 32), DAHeight: zzsym.U64("daH")}
	e.store.state, e.store.hasState = st, true
	return e.zzManager(st), sl
}

func zzHeights() (uint64, uint64) {
	I := zzsym.U64("I")
	zzsym.Assume(I >= 1 && I <= 1<<40)
	H := zzsym.U64("H")
	zzsym.Assume(H >= I && H <= 1<<41)
	return I, H
}

func zzLE(x uint64) []byte {
	b := make([]byte, 8)
	binary.LittleEndian.PutUint64(b, x)
	return b
}

func zzHeaderBlob(h *types.SignedHeader) []byte {
	p, err := h.ToProto()
	if err != nil {
		return nil
	}
	b, _ := proto.Marshal(p)
	return b
}

// ---- deterministic executor and proposer chains (C02/C05) -------------------

func zzDetRoot(prev []byte, h uint64, txs [][]byte) []byte {
	buf := append([]byte(nil), prev...)
	buf = append(buf, zzLE(h)...)
	for _, tx := range txs {
		buf = append(buf, byte(len(tx)))
		buf = append(buf, tx...)
	}
	s := sha256.Sum256(buf)
	return s[:]
}

// zzDetExec: the execution layer as a deterministic function of the executed
// transactions (what C15 establishes for the reference executor).
type zzDetExec struct {
	zzExec
	// onExec, if set, runs at the start of every ExecuteTxs call with the number of the call (1, 2, ...)
	onExec func(n int)
	nExec  int
}

func (e *zzDetExec) ExecuteTxs(ctx context.Context, txs [][]byte, h uint64, t time.Time, prev []byte) ([]byte, uint64, error) {
	e.nExec++
	if e.onExec != nil {
		e.onExec(e.nExec)
	}
	if e.failExec {
		return nil, 0, zzErrInjected
	}
	root := zzDetRoot(prev, h, txs)
	e.calls = append(e.calls, zzExecCall{txs, h, prev, root})
	return root, 1 << 20, nil
}

// zzProposerChain builds the proposer's blocks base+1..base+n on top of an
// arbitrary state root: hash linked, signed, AppHash = root before the block
// (delayed execution).  Returns the slots and the roots after each block.
func (e *zzEnv) zzProposerChain(base uint64, n int, nonEmpty []bool, root0 []byte) ([]*zzSlot, [][]byte) {
	prev := types.Hash(zzsym.BytesN("hashBase", 32))
	ts := zzTimeNs("tsBase")
	root := root0
	var slots []*zzSlot
	var roots [][]byte
	for i := 0; i < n; i++ {
		var txs types.Txs
		if nonEmpty[i] {
			txs = types.Txs{types.Tx(zzsym.BytesN("tx", 1))}
		}
		sl := e.zzSignedBlock("p", base+uint64(i)+1, ts+int64(i), prev, root, txs)
		root = zzDetRoot(root, base+uint64(i)+1, zzRaw(sl.data.Txs))
		slots = append(slots, sl)
		roots = append(roots, root)
		prev = sl.header.Hash()
	}
	return slots, roots
}

// zzFullNode: a syncing node at chain height H whose tip is the proposer's
// block H, plus the proposer's next n blocks (not yet applied).
func zzFullNode(n int) (*zzEnv, *Manager, *zzDetExec, uint64, []*zzSlot, [][]byte) {
	I := zzsym.U64("I")
	zzsym.Assume(I >= 1 && I <= 1<<40)
	H := zzsym.U64("H")
	zzsym.Assume(H >= I && H <= 1<<41)
	e := zzNewEnv(I)
	ne := make([]bool, n+1)
	for i := range ne {
		// (whether the already applied tip block is empty is irrelevant)
		ne[i] = i > 0 && zzsym.Bool("nonempty")
	}
	rootBefore := zzsym.BytesN("rootHm1", 2)
	slots, roots := e.zzProposerChain(H-1, n+1, ne, rootBefore)
	e.store.blocks[H] = slots[0]
	e.store.height = H
	st := types.State{ChainID: e.chainID, InitialHeight: I, LastBlockHeight: H, LastBlockTime: slots[0].header.Time(), AppHash: roots[0]}
	e.store.state, e.store.hasState = st, true
	m := e.zzManager(st)
	ex := &zzDetExec{}
	m.exec = ex
	return e, m, ex, H, slots[1:], roots[1:]
}

// zzFreshFullNode: a syncing node started for the first time (real NewManager
// on an empty store, no signer: the locally built unsigned genesis block is
// in its store), plus the proposer's first n blocks.
func zzFreshFullNode(n int) (*zzEnv, *Manager, *zzDetExec, uint64, []*zzSlot, [][]byte) {
	I := zzsym.U64("I")
	zzsym.Assume(I >= 1 && I <= 1<<40)
	e := zzNewEnv(I)
	ex := &zzDetExec{}
	m, err := NewManager(context.Background(), nil, e.cfg, e.gen, e.store, ex, e.seq, nil, m0logger(), nil, nil, e.hb, e.db, NopMetrics(), 1, 1, DefaultManagerOptions())
	zzsym.Assert(err == nil, "full-node-first-start")
	if err != nil {
		zzsym.Assume(false)
	}
	ne := make([]bool, n)
	for i := range ne {
		ne[i] = zzsym.Bool("nonempty")
	}
	slots, roots := e.zzProposerChain(I-1, n, ne, ex.initRoot)
	zzsym.Assume(!e.gen.GenesisDAStartTime.After(slots[0].header.Time()))
	return e, m, ex, I - 1, slots, roots
}

// ---- small doubles for C11/C13 -------------------------------------------------

// zzC13DA: one DA height (7) holding one blob; everything later is from the future.
type zzC13DA struct {
	zzDA
	blob []byte
}

func (d *zzC13DA) GetIDs(ctx context.Context, height uint64, ns []byte) (*coreda.GetIDsResult, error) {
	if height != 7 {
		return nil, coreda.ErrHeightFromFuture
	}
	return &coreda.GetIDsResult{IDs: []coreda.ID{{0, 0, 0, 0, 0, 0, 0, 0, 1, 1}}}, nil
}
func (d *zzC13DA) Get(ctx context.Context, ids []coreda.ID, ns []byte) ([]coreda.Blob, error) {
	return []coreda.Blob{d.blob}, nil
}

// zzSeen: the reaper's persistent seen-set (ds.Batching): a durable set of keys
// with crash injection on Put.
type zzSeen struct {
	m        map[string]bool
	puts     int
	crashAt  int
	failPut  bool
	useCrash bool
}

func (s *zzSeen) Get(ctx context.Context, key ds.Key) ([]byte, error) {
	if s.m[key.String()] {
		return []byte{1}, nil
	}
	return nil, ds.ErrNotFound
}
func (s *zzSeen) Has(ctx context.Context, key ds.Key) (bool, error)    { return s.m[key.String()], nil }
func (s *zzSeen) GetSize(ctx context.Context, key ds.Key) (int, error) { return 1, nil }
func (s *zzSeen) Query(ctx context.Context, q dsq.Query) (dsq.Results, error) {
	zzsym.Unsupported("zzSeen.Query")
	return nil, nil
}
func (s *zzSeen) Put(ctx context.Context, key ds.Key, v []byte) error {
	if s.failPut {
		return zzErrInjected
	}
	if s.useCrash && s.puts >= s.crashAt {
		return zzErrCrash
	}
	s.puts++
	s.m[key.String()] = true
	return nil
}
func (s *zzSeen) Delete(ctx context.Context, key ds.Key) error { delete(s.m, key.String()); return nil }
func (s *zzSeen) Sync(ctx context.Context, p ds.Key) error     { return nil }
func (s *zzSeen) Close() error                                 { return nil }
func (s *zzSeen) Batch(ctx context.Context) (ds.Batch, error) {
	zzsym.Unsupported("zzSeen.Batch")
	return nil, nil
}

func (e *zzEnv) zzDataBlob(sl *zzSlot) []byte {
	bz, _ := sl.data.MarshalBinary()
	sig, _ := e.signer.Sign(bz)
	sd := &types.SignedData{Data: *sl.data, Signature: sig, Signer: types.Signer{PubKey: e.pub, Address: e.addr}}
	out, _ := sd.MarshalBinary()
	return out
}
