package block

// Post-conditions of header/data submission shared by the C06 lemmas and the
// interleaving harness of C13.

import (
	"bytes"
	"encoding/binary"

	"github.com/evstack/ev-node/internal/zzsym"
	"github.com/evstack/ev-node/types"
)

func zzPersistedWM(e *zzEnv, key string) uint64 {
	v, ok := e.store.meta[key]
	if !ok || len(v) != 8 {
		return 0
	}
	return binary.LittleEndian.Uint64(v)
}

// acceptedContiguous: the accepted log, restricted to its first occurrence per
// height, covers W+1..upTo with exactly the stored blobs.
func zzHeaderAccepted(e *zzEnv, da *zzDA, h uint64) (uint64, bool) {
	want := zzHeaderBlob(e.store.blocks[h].header)
	for _, a := range da.accepted {
		if bytes.Equal(a.blob, want) {
			return a.height, true
		}
	}
	return 0, false
}

func zzCheckHeaderSubmission(e *zzEnv, m *Manager, da *zzDA, W uint64, n int) {
	wm := m.pendingHeaders.getLastSubmittedHeaderHeight()
	zzsym.Assert(wm >= W && wm <= W+uint64(n), "watermark-in-range")
	zzsym.Assert(zzPersistedWM(e, "last-submitted-header-height") == wm, "persisted-watermark-equals-memory")
	// every height up to the watermark has its exact header blob accepted by the DA
	for i := 1; i <= n; i++ {
		h := W + uint64(i)
		dah, ok := zzHeaderAccepted(e, da, h)
		if h <= wm {
			zzsym.Assert(ok, "watermark-only-past-accepted-headers")
			hash := e.store.blocks[h].header.Hash().String()
			got, marked := m.headerCache.GetDAIncludedHeight(hash)
			zzsym.Assert(marked, "accepted-header-marked-da-included")
			// the recorded DA height is one at which the blob really is
			found := false
			want := zzHeaderBlob(e.store.blocks[h].header)
			for _, a := range da.accepted {
				if a.height == got && bytes.Equal(a.blob, want) {
					found = true
				}
			}
			zzsym.Assert(!marked || found, "recorded-da-height-holds-the-blob")
			_ = dah
		}
	}
	// offers are in increasing height order and each offered blob is exactly a stored header
	for _, off := range da.offered {
		for j, b := range off {
			var hd types.SignedHeader
			zzsym.Assert(hd.UnmarshalBinary(b) == nil, "offered-blob-decodes")
			sl := e.store.blocks[hd.Height()]
			zzsym.Assert(sl != nil && bytes.Equal(hd.Hash(), sl.header.Hash()) && bytes.Equal(hd.Signature, sl.header.Signature), "offered-blob-is-the-committed-header")
			zzsym.Assert(e.zzVerifies(&hd), "offered-header-verifies-under-proposer-key")
			if j > 0 {
				var prev types.SignedHeader
				_ = prev.UnmarshalBinary(off[j-1])
				zzsym.Assert(hd.Height() == prev.Height()+1, "offers-in-increasing-height-order")
			}
		}
	}
	// marks only for accepted blobs
	for i := 1; i <= n; i++ {
		h := W + uint64(i)
		hash := e.store.blocks[h].header.Hash().String()
		if m.headerCache.IsDAIncluded(hash) {
			_, ok := zzHeaderAccepted(e, da, h)
			zzsym.Assert(ok, "mark-only-for-accepted-blob")
		}
	}
}

func zzDataAccepted(e *zzEnv, da *zzDA, h uint64) bool {
	sl := e.store.blocks[h]
	for _, a := range da.accepted {
		var sd types.SignedData
		if sd.UnmarshalBinary(a.blob) != nil || sd.Metadata == nil {
			continue
		}
		if sd.Height() == h && zzTxsEqual(sd.Txs, zzRaw(sl.data.Txs)) {
			return true
		}
	}
	return false
}

func zzCheckDataSubmission(e *zzEnv, m *Manager, da *zzDA, W uint64, n int) {
	wm := m.pendingData.getLastSubmittedDataHeight()
	zzsym.Assert(wm >= W && wm <= W+uint64(n), "data-watermark-in-range")
	zzsym.Assert(zzPersistedWM(e, "last-submitted-data-height") == wm, "data-persisted-watermark-equals-memory")
	for i := 1; i <= n; i++ {
		h := W + uint64(i)
		sl := e.store.blocks[h]
		if h <= wm && len(sl.data.Txs) > 0 {
			zzsym.Assert(zzDataAccepted(e, da, h), "data-watermark-only-past-accepted-data")
		}
	}
	for _, off := range da.offered {
		var prevH uint64
		for j, b := range off {
			var sd types.SignedData
			zzsym.Assert(sd.UnmarshalBinary(b) == nil && sd.Metadata != nil, "offered-data-decodes")
			if sd.Metadata == nil {
				continue
			}
			sl := e.store.blocks[sd.Height()]
			zzsym.Assert(sl != nil && len(sd.Txs) > 0 && zzTxsEqual(sd.Txs, zzRaw(sl.data.Txs)), "offered-data-is-the-committed-data")
			zzsym.Assert(m.isValidSignedData(&sd) && sd.Signer.PubKey.Equals(e.pub), "offered-data-verifies-under-proposer-key")
			if j > 0 {
				zzsym.Assert(sd.Height() > prevH, "data-offers-in-increasing-height-order")
			}
			prevH = sd.Height()
		}
	}
}
