//go:build zzsym_engine

// Package zzsym: intrinsics of the gosx symbolic executor.  Under the
// zzsym_engine tag (how the encoder loads the tree) every function below is
// intercepted by name; the bodies are never executed.
package zzsym

import "time"

func U64(name string) uint64               { return 0 }
func I64(name string) int64                { return 0 }
func U32(name string) uint32               { return 0 }
func U16(name string) uint16               { return 0 }
func U8(name string) uint8                 { return 0 }
func Bool(name string) bool                { return false }
func Int(name string, lo, hi int) int      { return lo }
func Pick(name string, n int) int          { return 0 }
func Bytes(name string, maxLen int) []byte { return nil }
func BytesN(name string, n int) []byte     { return nil }
func Str(name string) string               { return "" }
func Assume(c bool)                        {}
func Assert(c bool, label string)          {}
func Reach(label string)                   {}
func Unsupported(why string)               {}
func Region(name string, c bool)           {}
func Symbolic() bool                       { return true }
func OnIdle(f func())                      {}
func SetIdleDelay(ms int)                  {}
func ObserveU64(label string, v uint64)    {}
func ObserveBool(label string, v bool)     {}
func ObserveBytes(label string, v []byte)  {}
func ObserveStr(label string, v string)    {}
func NowNs() int64                         { return 0 }
func At(t int64, f func())                 {}
func FreezeClock()                         {}
func FreezeTimers()                        {}
func SetClockNs(ns int64)                  {}
func SleptNs() int64                       { return 0 }
func StepDeadline(n int, label string)     {}
func Go(f func())                          {}
func Join()                                {}
func Yield()                               {}
func SetCPUs(n int)                        {}
func NondetMapOrder(on bool)               {}
func SetPreemptionBound(n int)             {}
func TempDir() string                      { return "/zz/root" }
func TimeOf(ns int64) time.Time            { return time.Time{} }
func ReplayMain(fns map[string]func())     {}
