//go:build !zzsym_engine

// Package zzsym, native side: the same harness compiles against these bodies
// and replays one solver model (VERIF_REPLAY_IN) against the real build.
package zzsym

import (
	"encoding/hex"
	"encoding/json"
	"fmt"
	"os"
	"runtime"
	"runtime/debug"
	"strconv"
	"strings"
	"sync"
	"time"
)

type obsVal struct {
	Label string `json:"Label"`
	Value string `json:"Value"`
}

type result struct {
	ID          int      `json:"id"`
	Harness     string   `json:"harness"`
	Failed      []string `json:"failed"`
	Panic       string   `json:"panic"`
	Obs         []obsVal `json:"obs"`
	Aborted     string   `json:"aborted"`
	Hung        bool     `json:"hung"`
	MissingVars []string `json:"missing_vars"`
}

type replayCase struct {
	ID      int               `json:"id"`
	Harness string            `json:"harness"`
	Model   map[string]string `json:"model"`
}

type abortRun struct{ why string }
type stopRun struct{}

var (
	mu      sync.Mutex
	cur     *result
	model   map[string]string
	nameCnt map[string]int
	hooks   []func()
	driver  bool
)

func uniq(name string) string {
	k := nameCnt[name]
	nameCnt[name] = k + 1
	if k == 0 {
		return name
	}
	return fmt.Sprintf("%s#%d", name, k)
}

func lookup(name string) (string, bool) {
	v, ok := model[name]
	if !ok {
		cur.MissingVars = append(cur.MissingVars, name)
	}
	return v, ok
}

func u64(name string) uint64 {
	v, ok := lookup(name)
	if !ok {
		return 0
	}
	n, err := strconv.ParseUint(v, 10, 64)
	if err != nil {
		panic(abortRun{"bad model value for " + name + ": " + v})
	}
	return n
}

func U64(name string) uint64 { return u64(uniq(name)) }
func I64(name string) int64  { return int64(u64(uniq(name))) }
func U32(name string) uint32 { return uint32(u64(uniq(name))) }
func U16(name string) uint16 { return uint16(u64(uniq(name))) }
func U8(name string) uint8   { return uint8(u64(uniq(name))) }
func Bool(name string) bool {
	v, _ := lookup(uniq(name))
	return v == "true"
}
func Int(name string, lo, hi int) int {
	n := uniq(name)
	if _, ok := model[n]; !ok {
		cur.MissingVars = append(cur.MissingVars, n)
		return lo
	}
	return int(int64(u64(n)))
}
func Pick(name string, n int) int { return int(u64(uniq(name))) }
func Bytes(name string, maxLen int) []byte {
	n := uniq(name)
	l := int(u64(n + ".len"))
	return bytesOf(n, l)
}
func BytesN(name string, n int) []byte { return bytesOf(uniq(name), n) }
func bytesOf(n string, l int) []byte {
	out := make([]byte, l)
	for i := range out {
		if v, ok := model[fmt.Sprintf("%s[%d]", n, i)]; ok {
			x, _ := strconv.ParseUint(v, 10, 8)
			out[i] = byte(x)
		}
	}
	return out
}
func Str(name string) string {
	v, _ := lookup(uniq(name))
	if h, ok := strings.CutPrefix(v, "hex:"); ok {
		b, _ := hex.DecodeString(h)
		return string(b)
	}
	return ""
}
func Assume(c bool) {
	if !c {
		panic(abortRun{"assumption violated by the model"})
	}
}
func Assert(c bool, label string) {
	if !c {
		mu.Lock()
		cur.Failed = append(cur.Failed, label)
		mu.Unlock()
		panic(stopRun{})
	}
}
func Reach(label string)         {}
func Unsupported(why string)     { panic(abortRun{"unsupported: " + why}) }
func Region(name string, c bool) {}
func Symbolic() bool             { return false }

var hangAfter = 20 * time.Second

var idleDelay = 150 * time.Millisecond

// SetIdleDelay sets how long the native driver waits before playing the next
// idle hook (must exceed the longest busy period of the code under test).
func SetIdleDelay(ms int) { idleDelay = time.Duration(ms) * time.Millisecond }

// OnIdle: natively the hooks are played by a driver goroutine, one every
// idleDelay after the harness went quiet (time based quiescence).
func OnIdle(f func()) {
	mu.Lock()
	hooks = append(hooks, f)
	start := !driver
	driver = true
	mu.Unlock()
	if start {
		go func() {
			for {
				time.Sleep(idleDelay)
				mu.Lock()
				if len(hooks) == 0 {
					driver = false
					mu.Unlock()
					return
				}
				h := hooks[0]
				hooks = hooks[1:]
				mu.Unlock()
				h()
			}
		}()
	}
}
func obs(label, v string) {
	mu.Lock()
	cur.Obs = append(cur.Obs, obsVal{label, v})
	mu.Unlock()
}
func ObserveU64(label string, v uint64)   { obs(label, strconv.FormatUint(v, 10)) }
func ObserveBool(label string, v bool)    { obs(label, strconv.FormatBool(v)) }
func ObserveBytes(label string, v []byte) { obs(label, "hex:"+hex.EncodeToString(v)) }
func ObserveStr(label string, v string)   { obs(label, "hex:"+hex.EncodeToString([]byte(v))) }
func NowNs() int64                        { return time.Now().UnixNano() }

// At: natively the callback is run by a real timer at the given wall-clock instant.
func At(t int64, f func())      { time.AfterFunc(time.Until(time.Unix(0, t)), f) }
func FreezeClock()              {}
func FreezeTimers()             {}
func SetClockNs(ns int64)       {}
func SleptNs() int64            { return 0 }
func TimeOf(ns int64) time.Time { return time.Unix(0, ns) }

// TempDir: a scratch directory for files the code under test writes (removed
// when the replayed case is over); under the engine a fixed path of the file model.
func TempDir() string {
	d, err := os.MkdirTemp("/var/tmp", "zzsym-root-")
	if err != nil {
		panic(err)
	}
	mu.Lock()
	tempDirs = append(tempDirs, d)
	allTempDirs = append(allTempDirs, d)
	mu.Unlock()
	return d
}

var tempDirs, allTempDirs []string

var origProcs = runtime.GOMAXPROCS(0)

func runOne(c replayCase, fn func()) (res result) {
	res = result{ID: c.ID, Harness: c.Harness}
	runtime.GOMAXPROCS(origProcs)
	defer func() {
		mu.Lock()
		ds := tempDirs
		tempDirs = nil
		mu.Unlock()
		for _, d := range ds {
			os.RemoveAll(d)
		}
	}()
	cur = &res
	model = c.Model
	nameCnt = map[string]int{}
	hooks = nil
	idleDelay = 150 * time.Millisecond
	defer func() {
		if r := recover(); r != nil {
			switch x := r.(type) {
			case stopRun:
			case abortRun:
				res.Aborted = x.why
			default:
				res.Panic = fmt.Sprintf("%v\n%s", r, debug.Stack())
			}
		}
	}()
	fn()
	return
}

func ReplayMain(fns map[string]func()) {
	in, out := os.Getenv("VERIF_REPLAY_IN"), os.Getenv("VERIF_REPLAY_OUT")
	if in == "" || out == "" {
		return
	}
	b, err := os.ReadFile(in)
	if err != nil {
		panic(err)
	}
	var cases []replayCase
	if err := json.Unmarshal(b, &cases); err != nil {
		panic(err)
	}
	var results []result
	for _, c := range cases {
		fn, ok := fns[c.Harness]
		if !ok {
			continue
		}
		// a harness that does not come back within hangAfter is reported as hung
		// (the goroutine is abandoned; later cases still run)
		done := make(chan result, 1)
		go func() { done <- runOne(c, fn) }()
		select {
		case r := <-done:
			results = append(results, r)
		case <-time.After(hangAfter):
			mu.Lock()
			r := *cur
			mu.Unlock()
			r.Hung = true
			results = append(results, r)
		}
	}
	// (directories of cases that were abandoned as hung are removed here)
	mu.Lock()
	for _, d := range allTempDirs {
		os.RemoveAll(d)
	}
	mu.Unlock()
	ob, _ := json.Marshal(results)
	if err := os.WriteFile(out, ob, 0644); err != nil {
		panic(err)
	}
}

// StepDeadline: natively a no-op (a run that never returns is reported by the hang detector).
func StepDeadline(n int, label string) {}
