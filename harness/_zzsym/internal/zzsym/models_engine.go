//go:build zzsym_engine

package zzsym

// Engine-only models of library objects (never compiled natively).  The
// functions marked //zzsym:replace are called by the interpreter in place of
// the named library function.

import (
	"crypto/cipher"
	"errors"
)

// AEADSeal / AEADOpen / KDF are intercepted by the engine (uninterpreted
// functions with the AEAD axioms, see gosx/crypto.go).
func AEADSeal(key, nonce, plaintext []byte) []byte          { return nil }
func AEADOpen(key, nonce, ciphertext []byte) ([]byte, bool) { return nil, false }
func KDF(passphrase, salt []byte, keyLen uint32) []byte      { return nil }

type blockModel struct{ key []byte }

func (b *blockModel) BlockSize() int          { return 16 }
func (b *blockModel) Encrypt(dst, src []byte) { Unsupported("raw AES block encryption") }
func (b *blockModel) Decrypt(dst, src []byte) { Unsupported("raw AES block decryption") }

//zzsym:replace crypto/aes.NewCipher
func aesNewCipher(key []byte) (cipher.Block, error) {
	switch len(key) {
	case 16, 24, 32:
	default:
		return nil, errors.New("crypto/aes: invalid key size")
	}
	return &blockModel{key: append([]byte(nil), key...)}, nil
}

type gcmModel struct{ key []byte }

func (g *gcmModel) NonceSize() int { return 12 }
func (g *gcmModel) Overhead() int  { return 16 }
func (g *gcmModel) Seal(dst, nonce, plaintext, additionalData []byte) []byte {
	if len(nonce) != 12 {
		panic("crypto/cipher: incorrect nonce length given to GCM")
	}
	if len(additionalData) != 0 {
		Unsupported("AEAD additional data")
	}
	return append(dst, AEADSeal(g.key, nonce, plaintext)...)
}
func (g *gcmModel) Open(dst, nonce, ciphertext, additionalData []byte) ([]byte, error) {
	if len(nonce) != 12 {
		panic("crypto/cipher: incorrect nonce length given to GCM")
	}
	if len(ciphertext) < 16 {
		return nil, errors.New("cipher: message authentication failed")
	}
	pt, ok := AEADOpen(g.key, nonce, ciphertext)
	if !ok {
		return nil, errors.New("cipher: message authentication failed")
	}
	return append(dst, pt...), nil
}

//zzsym:replace crypto/cipher.NewGCM
func cipherNewGCM(b cipher.Block) (cipher.AEAD, error) {
	bm, ok := b.(*blockModel)
	if !ok {
		Unsupported("NewGCM on a foreign block cipher")
	}
	return &gcmModel{key: bm.key}, nil
}

//zzsym:replace golang.org/x/crypto/argon2.IDKey
func argon2IDKey(password, salt []byte, time, memory uint32, threads uint8, keyLen uint32) []byte {
	// the cost parameters are inputs of the function: a different time, memory or
	// lane count gives an unrelated key
	in := append(append([]byte(nil), salt...),
		byte(time), byte(time>>8), byte(time>>16), byte(time>>24),
		byte(memory), byte(memory>>8), byte(memory>>16), byte(memory>>24), threads)
	return KDF(password, in, keyLen)
}
