//go:build !zzsym_engine

package zzsym

// Native side of Go/Join/Yield: the registered functions run as real
// goroutines.  When the model carries a "__schedule" (the order in which the
// engine let the threads pass their gates: thread start and every Yield), the
// goroutines are admitted through their gates in that order, one at a time; a
// goroutine that does not reach its next gate within blockedAfter is presumed
// to wait for a lock and the next one is admitted.  Without a schedule the
// goroutines run freely.

import (
	"runtime"
	"strconv"
	"strings"
	"sync"
	"time"
)

const blockedAfter = 100 * time.Millisecond

var thr struct {
	mu      sync.Mutex
	fns     []func()
	sched   []int
	pos     int
	running int
	granted time.Time
	ids     map[uint64]int
	active  bool
}

func goid() uint64 {
	var buf [64]byte
	n := runtime.Stack(buf[:], false)
	f := strings.Fields(string(buf[:n]))
	if len(f) < 2 {
		return 0
	}
	id, _ := strconv.ParseUint(f[1], 10, 64)
	return id
}

// SetCPUs: natively the CPU quota of the process is changed for real.
func SetCPUs(n int) { runtime.GOMAXPROCS(n) }

// NondetMapOrder only matters to the engine (natively the Go runtime picks the order).
func NondetMapOrder(on bool) {}

// SetPreemptionBound only matters to the engine's exploration.
func SetPreemptionBound(n int) {}

func Go(f func()) {
	thr.mu.Lock()
	thr.fns = append(thr.fns, f)
	thr.mu.Unlock()
}

func gate(id int) {
	giveUp := time.Now().Add(3 * time.Second)
	thr.mu.Lock()
	if thr.running == id {
		thr.running = 0
	}
	for {
		if thr.pos >= len(thr.sched) || time.Now().After(giveUp) {
			break
		}
		if thr.running != 0 && time.Since(thr.granted) > blockedAfter {
			thr.running = 0 // presumed to wait for a lock
		}
		if thr.running == 0 && thr.sched[thr.pos] == id {
			thr.pos++
			thr.running = id
			thr.granted = time.Now()
			break
		}
		thr.mu.Unlock()
		time.Sleep(2 * time.Millisecond)
		thr.mu.Lock()
	}
	thr.mu.Unlock()
}

func Yield() {
	thr.mu.Lock()
	id := 0
	if thr.active {
		id = thr.ids[goid()]
	}
	thr.mu.Unlock()
	if id > 0 {
		gate(id)
	} else {
		runtime.Gosched()
	}
}

func Join() {
	thr.mu.Lock()
	fns := thr.fns
	thr.fns = nil
	thr.sched, thr.pos, thr.running = nil, 0, 0
	if s, ok := model["__schedule"]; ok && s != "" {
		for _, p := range strings.Split(s, ",") {
			v, _ := strconv.Atoi(p)
			thr.sched = append(thr.sched, v)
		}
	}
	thr.ids = map[uint64]int{}
	thr.active = true
	thr.mu.Unlock()
	var wg sync.WaitGroup
	var panicked interface{}
	for i, f := range fns {
		wg.Add(1)
		go func(id int, f func()) {
			defer wg.Done()
			thr.mu.Lock()
			thr.ids[goid()] = id
			thr.mu.Unlock()
			defer func() {
				// a panic in a thread would kill the whole replay binary: it is
				// handed to the harness goroutine and raised there after the join
				r := recover()
				thr.mu.Lock()
				if r != nil && panicked == nil {
					panicked = r
				}
				if thr.running == id {
					thr.running = 0
				}
				thr.mu.Unlock()
			}()
			gate(id)
			f()
		}(i+1, f)
	}
	wg.Wait()
	thr.mu.Lock()
	thr.active = false
	thr.mu.Unlock()
	if panicked != nil {
		panic(panicked)
	}
}
