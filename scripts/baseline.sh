#!/bin/bash
# runs the repository's pinned test suite with no build tags (there are no source hooks)
cd /repo || exit 2
export GOFLAGS=-mod=mod GOPROXY=off
rc=0
for m in $(cat /w/out/gomods.txt 2>/dev/null || echo . ./apps/testapp ./core ./da ./sequencers/based ./sequencers/single); do
  (cd /repo/$m && go test -vet=off -count=1 -timeout 25m ./...) || rc=1
done
exit $rc
