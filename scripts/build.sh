#!/bin/bash
# builds the gosx engine from /verif/gosx (offline; module cache only)
set -e
cd /verif/gosx
export GOFLAGS=-mod=mod GOPROXY=off GOTOOLCHAIN=local GOSUMDB=off
mkdir -p /verif/bin
go1.26.8 build -o /verif/bin/gosx .
