#!/usr/bin/env python3
# regenerates MANIFEST.json from the table below
import json
claimed = {
 "C01": ("one inductive production step (and 2-step recoveries, and the genesis step through the real NewManager) of the real publishBlockInternal, symbolically executed from go/ssa from an arbitrary invariant node state with arbitrary sequencer/executor responses; z3 decides every path", "store = map double (contract of C14), crypto/hash as uninterpreted functions with the standard axioms, batches <= 2 txs; see evidence bounds"),
 "C02": ("the real SyncLoop executed symbolically over every bounded delivery sequence and channel interleaving of the proposer's next two blocks, from an arbitrary synced state and from a first start (real NewManager on an empty store), plus a restart through the real NewManager: height monotone, no block applied without both parts, every complete block applied, identical hashes/txs/state roots", "2 blocks (3 in the stop-inside-a-run lemma), <=2 events per channel; cache files through a gob round-trip model; open known finding C02-K1 (equal tx lists)"),
 "C03": ("every admission gate for headers and signed data (DA ingress, P2P filter, the light-node Validate+Verify contract, execValidate) executed symbolically on an arbitrary third-party item: accepted implies the item carries the genesis proposer's key and verifies under it", "crypto as uninterpreted functions without unforgeability; go-header/libp2p replaced by their call contract; two open known findings on the light-node gate"),
 "C04": ("production step with a crash at every durable-write boundary, from an arbitrary invariant state and from a first start on an empty store (any initial height); restart through the real NewManager, nested second crash, then a crash-free step: restart always succeeds, height/state/blocks agree, committed blocks never replaced, production resumes", "store double with crash counter; cache files not modelled"),
 "C05": ("block application with a crash at every durable-write boundary (nested), from an arbitrary synced state and from a first start on an empty store; restart through the real NewManager, re-delivery in several orders: image consistent, blocks are the proposer's, node converges, DA scan position not past unapplied blobs", "2 blocks; caches empty after restart"),
 "C06": ("the real submitToDA / submitHeadersToDA / submitDataToDA / createSignedDataToSubmit / pendingBase executed symbolically over scripted DA fault sequences, partial acceptance, restarts and a fresh chain of any small initial height (also restarted before the first acceptance); watermark soundness, order, blob identity and signature checked on every path", "<=2 (3) pending items, <=2 (3) DA answers per call; store/DA doubles"),
 "C07": ("one wake-up of the real DAIncluderLoop from an arbitrary mark/height state, with executor and store faults, plus the restart reload; soundness, monotonicity, order of finalisation, durability and one-step eventuality asserted on every path", "<=2 (3) blocks per step; marks assumed to exist exactly for blobs on the DA layer; two open known findings (equal tx lists alias)"),
 "C08": ("the refusal test for all 64-bit limits/heights/watermarks, the drain lemma (accepting DA => production resumes) for every mix of up to 2 (3) pending blocks incl. all-empty, and an outage from launch with a restart on a fresh chain of initial height 1..4, on the real code", "<=3 pending blocks; accepting DA double"),
 "C09": ("the real RetrieveLoop driven over scripted DA heights with every fetch outcome and blob kind: cursor never skips, leaves a height only after success/not-found, retries every defined error, hands exactly the genuine blobs to sync", "2 DA heights, <=2 blobs per height, protobuf runtime trusted"),
 "C10": ("every history of up to 4 (5) queue operations incl. restarts, foreign/empty/over-bound submissions and arbitrary datastore iteration order on the real BatchQueue/Sequencer against a FIFO reference; two concurrent submitters, or a submitter and a consumer, under every interleaving at datastore-operation granularity with lock waits", "threads are preempted only at datastore operations; open known findings C10-K1..K3 (hash-keyed persistence)"),
 "C11": ("one reaping step against every seen-set/sequencer/crash combination, and one batch take with a crash at every write: nothing new is dropped, nothing is marked seen unless handed over", "open known findings C11-K1/K2 (take window, timestamp drop)"),
 "C12": ("bounded symbolic execution of the real encoders/decoders, hashing and the batch-cursor codec from go/ssa, differential against a frozen reference encoder; z3 decides every path within the stated bounds", "bounds and summaries are listed in the evidence file; gob cache persistence is outside the claim"),
 "C13": ("stop-responsiveness: each loop function started in an arbitrary state and stopped at an arbitrary instant returns without an uninterruptible wait > 1 s, without spinning (bounded number of interpreter steps after the stop request) and never blocks for ever; interleavings: pairs of sequencer activities (production step, header/data submission body, DA-includer wake-up) on one Manager under every interleaving at the granularity of durable store writes and DA submissions (bounded preemptions, lock waits) keep the C01/C06/C07 post-conditions", "data races (memory-access granularity) are outside reach of this technique and not claimed; interleavings finer than store/DA operations, more than two activities at once and the P2P/sync/retrieve loops in combination are outside the bound"),
 "C14": ("all histories of up to 2 (thorough: 3) arbitrary mutators with reopen/crash points on the real DefaultStore over a datastore double, every reader compared with a map model; symbolic execution of the real code from go/ssa, z3 decides every path", "ds.Batching contract assumed (atomic batch, durable put); heights used as keys picked from {1,10,2^40}; badger outside"),
 "C15": ("two instances of the real KVExecutor driven with the same ExecuteTxs calls (incl. replays of earlier blocks) and different finalize (any height, also ahead of execution)/mempool/init/reopen schedules return identical state roots; rejected blocks change nothing", "transaction menu of 8 concrete strings; 2 blocks + one third call"),
 "C16": ("client-side size filter of the real API.SubmitWithOptions against a reference model for all blob lists within the bound and every 64-bit limit; classification: the node's real SubmitWithHelpers/RetrieveWithHelpers on a direct and on a proxied instance (real client wrappers, the wire as the contract 'same message text, no identity') of the same backing DA layer give the same status, ids and blobs for every error the DA interface defines, plain or wrapped; natively the replay goes through the real JSON-RPC client and server", "go-jsonrpc and encoding/json themselves are reflection driven and not executed by the engine: the wire is a stated contract validated by the native witness replays; JSON payload equality of ids/blobs is outside the claim"),
 "C17": ("the real lazy and normal aggregation loops on a symbolic clock with notifications at arbitrary instants: rate limit, service of notifications (incl. during a production), idle interval; the real AggregationLoop started at an arbitrary age of the last block: first block not before one block interval", "intervals 10/11/25(/40) units, duration grid; see evidence bounds"),
 "C19": ("the real ImportPrivateKey / LoadFileSystemSigner / ExportPrivateKey executed symbolically with Argon2id/AES-GCM/ed25519/JSON/file system as axiomatised uninterpreted functions: right passphrase loads a working, matching signer, any other passphrase fails, legacy files, corrupted fields, export-import migration (in place, over a legacy or foreign file); legacy derivation kernel total for passphrases of 0..40 bytes", "passphrases 0..3 bytes in the sealing harnesses; cryptographic primitives idealised (collision free, authentic), not executed"),
 "C20": ("the real based Sequencer.GetNextBatch / PersistentPendingTxs over every bounded DA content, size limit and restart schedule against the DA-ordered reference list", "open known findings C20-K1/K2; concrete DA heights"),
}
checks = []
for pid,(text,note) in sorted(claimed.items()):
    checks.append({
      "property_id": pid,
      "quick_cmd": "./check %s --tier quick" % pid,
      "thorough_cmd": "./check %s --tier thorough" % pid,
      "evidence_file": "evidence/%s.json" % pid,
      "replay_cmd_template": "./check %s --replay {path}" % pid,
      "engine": "gosx",
      "level_claimed": {"category": "model_checking", "text": text, "design_ref": "DESIGN.md section 4 " + pid},
      "level_note": note,
      "technique": "SMT-based bounded symbolic execution of the real code from go/ssa (z3), counterexamples replayed natively"})
na_reasons = {
 "C18": "flag/file/default precedence is computed inside cobra, viper, mapstructure, yaml and json by reflection over strings; there is no repo-owned logic a go/ssa symbolic encoder can reach",
}
allp = ["C%02d" % i for i in range(1,21)]
na = []
for p in allp:
    if p in claimed: continue
    na.append({"property_id": p, "reason": na_reasons.get(p, "no registered check yet: harness for the solver-based engine not built/validated at this commit (work in progress, see DESIGN.md)")})
m = {
 "version": 1,
 "setup_cmd": "./scripts/build.sh",
 "hooks": {"guard": "verif", "enable": "no source hooks: harnesses and environment doubles are injected with go/packages and `go test -overlay` overlays (virtual files /repo/<pkg>/zz_verif_*.go and /repo/internal/zzsym); the build tag `verif` is reserved and unused", "baseline_off_cmd": "./scripts/baseline.sh", "source_commits": [], "add_only": True},
 "engines": [{"name": "gosx", "path": "gosx/", "serves_properties": sorted(claimed), "kind_free_text": "path-exploring symbolic interpreter over go/ssa of the real code, emitting SMT-LIB2 to z3 (bit-vectors, sequences, uninterpreted functions); state merging for pure regions; counterexamples and witnesses replayed natively with go test -overlay"}],
 "checks": checks,
 "not_applicable": na,
 "notes": "exit 0 = held within the stated bounds (KNOWN-FINDING lines possible), 1 = replay-confirmed VIOLATION, 2 = inconclusive (fails closed). Repairs of genuine defects are 'fix:' commits in /repo, listed in known_findings.json."
}
json.dump(m, open('/verif/MANIFEST.json','w'), indent=1)
