#!/bin/bash
# usage: seed_collect.sh <seed-id> <worktree> <property> <module-dir-rel> <pkg-rel-to-module> <TestName>
# Confirms a seeded change in its scratch worktree and stores it under /verif/seeded/<seed-id>/.
set -u
sid=$1; wt=$2; prop=$3; mod=$4; pkg=$5; tname=$6
export GOFLAGS=-mod=mod GOPROXY=off
out=/verif/seeded/$sid; mkdir -p $out
cd $wt || exit 2
git diff > $out/patch.diff
for f in $(git ls-files --others --exclude-standard | grep zz_seeded); do mkdir -p $out/demo/$(dirname $f); cp $f $out/demo/$f; done
log=$out/confirm.log; : > $log
echo "## demo with change (expect FAIL)" >> $log
(cd $wt/$mod && go test -vet=off -count=1 -run "^$tname\$" ./$pkg 2>&1 | tail -15) >> $log; 
with=$(cd $wt/$mod && go test -vet=off -count=1 -run "^$tname\$" ./$pkg >/dev/null 2>&1; echo $?)
git apply -R $out/patch.diff
echo "## demo without change (expect PASS)" >> $log
(cd $wt/$mod && go test -vet=off -count=1 -run "^$tname\$" ./$pkg 2>&1 | tail -5) >> $log
without=$(cd $wt/$mod && go test -vet=off -count=1 -run "^$tname\$" ./$pkg >/dev/null 2>&1; echo $?)
git apply $out/patch.diff
echo "## existing suite of module $mod with change (skip demo)" >> $log
(cd $wt/$mod && go build ./... 2>&1 | tail -5; go test -vet=off -count=1 -timeout 25m -skip "^$tname\$" ./... 2>&1 | grep '^--- FAIL\|^FAIL\|^ok' | tail -40) >> $log
if [ "$mod" != "." ]; then
echo "## root module suite with change" >> $log
(cd $wt && go build ./... 2>&1 | tail -5; go test -vet=off -count=1 -timeout 25m -skip "^$tname\$" ./... 2>&1 | grep '^--- FAIL\|^FAIL\|^ok' | tail -40) >> $log
fi
echo "RESULT sid=$sid with_change_exit=$with without_change_exit=$without" | tee -a $log
