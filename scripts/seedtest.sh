#!/bin/bash
# usage: seedtest.sh <seed-id> <property> : applies the seeded change to /repo, runs the check, reverts.
sid=$1; prop=$2
cd /repo || exit 2
if git apply --check /verif/seeded/$sid/patch.diff 2>/dev/null; then git apply /verif/seeded/$sid/patch.diff
else echo "patch needs 3-way merge: $sid"; git apply --3way /verif/seeded/$sid/patch.diff || { git reset -q --hard HEAD; echo "PATCH DOES NOT APPLY: $sid"; exit 3; }; fi
cd /verif
./check $prop > /tmp/seedtest.$sid.out 2>&1; rc=$?
git -C /repo reset -q --hard HEAD
git -C /repo status --short | grep -v '^??' 
echo "seed=$sid prop=$prop exit=$rc"
grep "^VIOLATION\|^  harness=\|^INCONCLUSIVE\|^property\|^KNOWN" /tmp/seedtest.$sid.out | cut -c1-300 | head -20
