#!/bin/bash
# usage: seedtest.sh <seed-id> <property> [--tier t]
# Applies the seeded change to a scratch worktree of /repo (never to /repo itself), runs the
# check of <property> against it (VERIF_REPO) and removes the worktree.
sid=$1; prop=$2; shift 2
wt=/var/tmp/verif-seed-$sid-$$
git -C /repo worktree add -q --detach $wt HEAD || exit 3
trap 'git -C /repo worktree remove --force $wt >/dev/null 2>&1; git -C /repo worktree prune' EXIT
if ! git -C $wt apply /verif/seeded/$sid/patch.diff; then echo "PATCH DOES NOT APPLY: $sid"; exit 3; fi
cd /verif
VERIF_REPO=$wt ./check $prop "$@" > /tmp/seedtest.$sid.out 2>&1; rc=$?
echo "seed=$sid prop=$prop exit=$rc"
grep "^VIOLATION\|^  harness=\|^INCONCLUSIVE\|^property" /tmp/seedtest.$sid.out | cut -c1-300 | head -12
exit $rc
